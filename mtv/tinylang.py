"""Small hand-written languages that isolate one construct each (used by the exhaustive clauses)."""
from __future__ import annotations


def F(n):
    return {'type': 'field', 'name': n}


def S(n):
    return {'type': 'attackStep', 'name': n}


def col(l, r):
    return {'type': 'collect', 'lhs': l, 'rhs': r}


def op(t, l, r):
    return {'type': t, 'lhs': l, 'rhs': r}


def sub(t, e):
    return {'type': 'subType', 'subType': t, 'stepExpression': e}


def star(e):
    return {'type': 'transitive', 'stepExpression': e}


def var(n):
    return {'type': 'variable', 'name': n}


def fun(name, *args):
    return {'type': 'function', 'name': name, 'arguments': list(args)}


def step(name, typ='or', reaches=None, overrides=True, ttc=None, requires=None, tags=None, meta=None,
         risk=None):
    return {'name': name, 'meta': meta or {}, 'type': typ, 'tags': tags or [], 'risk': risk, 'ttc': ttc,
            'requires': None if requires is None else {'overrides': True, 'stepExpressions': requires},
            'reaches': None if reaches is None else {'overrides': overrides, 'stepExpressions': reaches}}


def asset(name, steps, parent=None, variables=None, abstract=False, category='System', meta=None):
    return {'name': name, 'meta': meta or {}, 'category': category, 'isAbstract': abstract,
            'superAsset': parent,
            'variables': [{'name': n, 'stepExpression': e} for n, e in (variables or [])],
            'attackSteps': steps}


def assoc(name, left, lfield, right, rfield, lmult=(0, None), rmult=(0, None), meta=None):
    return {'name': name, 'meta': meta or {}, 'leftAsset': left, 'leftField': lfield,
            'leftMultiplicity': {'min': lmult[0], 'max': lmult[1]},
            'rightAsset': right, 'rightField': rfield,
            'rightMultiplicity': {'min': rmult[0], 'max': rmult[1]}}


def lang(assets, assocs, ident='org.verif.tiny'):
    return {'formatVersion': '1.0.0', 'defines': {'id': ident, 'version': '1.0.0'},
            'categories': [{'name': 'System', 'meta': {}}], 'assets': assets, 'associations': assocs}


def setop_languages():
    """Host --b1--> Data, Host --b2--> Data"""
    assocs = [assoc('L1', 'Host', 'h1', 'Data', 'b1'), assoc('L2', 'Host', 'h2', 'Data', 'b2')]
    forms = []
    for o in ('union', 'intersection', 'difference'):
        forms.append((o, op(o, F('b1'), F('b2'))))
        for o2 in ('union', 'intersection', 'difference'):
            forms.append((f'{o}-{o2}', op(o2, op(o, F('b1'), F('b2')), F('b1'))))
    forms.append(('var-union', var('allv')))
    for name, e in forms:
        yield name, lang(
            [asset('Host', [step('access', reaches=[col(e, S('copy'))])],
                   variables=[('allv', op('union', F('b1'), F('b2')))]),
             asset('Data', [step('copy')])], assocs)


def transitive_languages():
    """Host self-association prev/nxt"""
    assocs = [assoc('Seq', 'Host', 'prev', 'Host', 'nxt')]
    forms = [('nxt*', star(F('nxt'))), ('prev*', star(F('prev'))),
             ('nxt.nxt*', col(F('nxt'), star(F('nxt')))),
             ('(nxt|prev)*', star(op('union', F('nxt'), F('prev'))))]
    for name, e in forms:
        yield name, lang([asset('Host', [step('access', reaches=[col(e, S('access'))])])], assocs)


def subtype_languages():
    """App --items--> Host ; Host <- Net <- User"""
    assocs = [assoc('Has', 'App', 'owner', 'Host', 'items')]
    for t in ('Host', 'Net', 'User'):
        yield t, lang(
            [asset('App', [step('access', reaches=[col(sub(t, F('items')), S('breach'))])]),
             asset('Host', [step('breach')]),
             asset('Net', [step('breach', reaches=[S('breach')])], parent='Host'),
             asset('User', [], parent='Net')], assocs)
