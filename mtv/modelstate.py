"""Typed observable state of a maltoolbox Model (read through attributes, not through the
serialised form), and the same structure computed from a case description."""
from __future__ import annotations

from .modelgen import assoc_class_name, defenses_of
from .ref_lang import Lang


def plain(x):
    """convert schema-object wrappers to plain python data"""
    if x is None or isinstance(x, (bool, int, float, str)):
        return x
    if hasattr(x, 'as_dict') and not isinstance(x, dict):
        try:
            return plain(x.as_dict())
        except Exception:
            pass
    if hasattr(x, 'for_json') and not isinstance(x, (dict, list)):
        try:
            return plain(x.for_json())
        except Exception:
            pass
    if isinstance(x, dict):
        # keys keep their type (a str key that comes back as an int is a difference)
        return {(k if isinstance(k, (str, int)) and not isinstance(k, bool) else str(k)): plain(v) for k, v in x.items()}
    if isinstance(x, (list, tuple)):
        return [plain(v) for v in x]
    if hasattr(x, '_value'):
        return plain(x._value)
    return x


def typed_state(model, spec, problems=None):
    """-> {'name', 'assets': {id: {...}}, 'links': sorted list, 'attackers': {...}}"""
    L = Lang(spec)
    problems = problems if problems is not None else []
    st = {'name': str(model.name), 'assets': {}, 'links': [], 'attackers': {}}
    for a in model.assets:
        try:
            aid = a.id
            if isinstance(plain(aid), bool) or not isinstance(plain(aid), int):
                problems.append(f'asset id {aid!r} is not an int')
            t = str(a.type)
            defs = {}
            for d in defenses_of(L, t):
                defs[d] = float(getattr(a, d))
            ex = plain(getattr(a, 'extras', None)) or {}
            if int(aid) in st['assets']:
                problems.append(f'two assets with id {aid}')
            st['assets'][int(aid)] = {'name': str(a.name), 'type': t, 'defenses': defs, 'extras': ex}
        except Exception as e:
            problems.append(f'asset unreadable: {type(e).__name__}: {e}')
    for s in model.associations:
        try:
            cls = type(s).__name__
            fields = {}
            decl = next((a for k, a in enumerate(spec['associations']) if assoc_class_name(spec, k) == cls), None)
            names = [decl['leftField'], decl['rightField']] if decl else list(s._properties.keys())
            for f in names:
                fields[str(f)] = sorted(int(x.id) for x in getattr(s, f))
            ex = plain(getattr(s, 'extras', None)) or {}
            st['links'].append([cls, fields, ex])
        except Exception as e:
            problems.append(f'association unreadable: {type(e).__name__}: {e}')
    st['links'].sort(key=repr)
    for t in model.attackers:
        try:
            eps = {}
            for asset, steps in t.entry_points:
                eps.setdefault(int(asset.id), [])
                eps[int(asset.id)] += [str(x) for x in steps]
            if t.id in st['attackers']:
                problems.append(f'two attackers with id {t.id}')
            st['attackers'][t.id] = {'name': None if t.name is None else str(t.name), 'entry_points': eps}
        except Exception as e:
            problems.append(f'attacker unreadable: {type(e).__name__}: {e}')
    return st


def pairwise_links(state):
    """set of (class, left-ish field, id, right-ish field, id) pairs - for legacy formats that
    can only express one pair per association object"""
    out = set()
    for cls, fields, _ in state['links']:
        (f1, ids1), (f2, ids2) = sorted(fields.items())
        for a in ids1:
            for b in ids2:
                out.add((cls, f1, a, f2, b))
    return out


def entry_point_set(state):
    out = set()
    for tid, t in state['attackers'].items():
        for aid, steps in t['entry_points'].items():
            for s in steps:
                out.add((tid, aid, s))
    return out
