"""G_ag: attack graphs built node by node through AttackGraph.add_node with mirrored
children / parents, as plain descriptions; builder; structural snapshot helpers.

description = {
  'nodes': [{'type', 'name', 'defense_status', 'existence_status', 'ttc', 'tags', 'extras',
             'is_viable', 'is_necessary'}],
  'edges': [[i, j], ...]            # i -> j : j is a child of i
  'attackers': [{'name', 'reached': [node idx]}]
}
"""
from __future__ import annotations

from hypothesis import strategies as st

TYPES = ['or', 'and', 'defense', 'exist', 'notExist']
DIST = {'type': 'function', 'name': 'Exponential', 'arguments': [0.1]}
ENABLED = {'type': 'function', 'name': 'Enabled', 'arguments': []}
DISABLED = {'type': 'function', 'name': 'Disabled', 'arguments': []}
BERN = {'type': 'function', 'name': 'Bernoulli', 'arguments': [0.5]}


def node(typ, status=None, ttc=None, tags=None, extras=None, viable=None, necessary=None, name=None):
    d = {'type': typ, 'name': name, 'defense_status': None, 'existence_status': None, 'ttc': ttc,
         'tags': tags or [], 'extras': extras or {}, 'is_viable': viable, 'is_necessary': necessary}
    if typ == 'defense':
        d['defense_status'] = 0.0 if status is None else status
    elif typ in ('exist', 'notExist'):
        d['existence_status'] = bool(status)
    return d


@st.composite
def graphs(draw, max_nodes=12, min_nodes=1, labels=False, attackers=0, tags=True, arith_ttc=False,
           types=None, extras=False, multi_edges=True):
    n = draw(st.integers(min_nodes, max_nodes))
    nodes = []
    types = types or ['or', 'or', 'and', 'and', 'defense', 'exist', 'notExist']
    for i in range(n):
        t = draw(st.sampled_from(types))
        ttc = None
        status = None
        if t == 'defense':
            status = draw(st.sampled_from([0.0, 1.0, 0.5, 0.0, 1.0]))
            ttc = draw(st.sampled_from([None, ENABLED, DISABLED, BERN]))
        elif t in ('exist', 'notExist'):
            status = draw(st.booleans())
        else:
            ttc = draw(st.sampled_from([None, None, DIST, BERN, ENABLED, DISABLED]))
        tg = []
        if tags and draw(st.integers(0, 9)) < 3:
            tg = draw(st.lists(st.sampled_from(['suppress', 'hidden', 'x']), min_size=1, max_size=2, unique=True))
        ex = {}
        if extras and draw(st.integers(0, 9)) < 3:
            ex = draw(st.sampled_from([{'k': 1}, {'pos': {'x': 1.5}}, {'note': 'yes'}]))
        nd = node(t, status, ttc, tg, ex, name=f's{i}')
        if labels:
            nd['is_viable'] = draw(st.booleans())
            nd['is_necessary'] = draw(st.booleans())
        nodes.append(nd)
    max_e = min(n * n, 3 * n)
    edges = draw(st.lists(st.tuples(st.integers(0, n - 1), st.integers(0, n - 1)).map(list),
                          max_size=max_e, unique_by=tuple))
    if multi_edges and edges and draw(st.integers(0, 9)) < 3:
        # the toolbox produces duplicate edges when a target is reached twice: repeat some edges
        for k in draw(st.lists(st.integers(0, len(edges) - 1), min_size=1, max_size=3)):
            edges.append(list(edges[k]))
    atts = []
    for j in range(draw(st.integers(0, attackers)) if attackers else 0):
        reached = draw(st.lists(st.integers(0, n - 1), max_size=min(n, 5), unique=True))
        att = {'name': f'Att{j}', 'reached': reached}
        if draw(st.integers(0, 3)) == 0:
            # entry points that are not (any longer) among the reached steps
            att['entry_points'] = draw(st.lists(st.integers(0, n - 1), max_size=3, unique=True))
        atts.append(att)
    return {'nodes': nodes, 'edges': edges, 'attackers': atts}


def build(desc, order=None, edge_order=None):
    """-> (graph, [node objects in description order], [attacker objects])"""
    from maltoolbox.attackgraph import AttackGraph, AttackGraphNode, Attacker
    g = AttackGraph()
    n = len(desc['nodes'])
    objs = [None] * n
    for i in (order if order is not None else range(n)):
        d = desc['nodes'][i]
        nd = AttackGraphNode(type=d['type'], name=d['name'] or f's{i}', ttc=d['ttc'])
        nd.defense_status = d['defense_status']
        nd.existence_status = d['existence_status']
        nd.tags = list(d['tags'])
        nd.extras = dict(d['extras'])
        if d.get('is_viable') is not None:
            nd.is_viable = d['is_viable']
        if d.get('is_necessary') is not None:
            nd.is_necessary = d['is_necessary']
        if desc.get('ids'):
            g.add_node(nd, node_id=desc['ids'][i])     # explicit ids, in any order (as after loading a file)
        else:
            g.add_node(nd)
        objs[i] = nd
    edges = desc['edges'] if edge_order is None else [desc['edges'][k] for k in edge_order]
    for i, j in edges:
        objs[i].children.append(objs[j])
        objs[j].parents.append(objs[i])
    atts = []
    for a in desc.get('attackers', []):
        att = Attacker(name=a['name'], entry_points=[], reached_attack_steps=[])
        g.add_attacker(att)
        for i in a['reached']:
            att.compromise(objs[i])
        if a.get('entry_points') is not None:
            att.entry_points = [objs[i] for i in a['entry_points']]
        else:
            att.entry_points = list(att.reached_attack_steps)
        atts.append(att)
    return g, objs, atts


# ---------------------------------------------------------------------------------------------
# reference a-priori analysis (greatest fixed point by downward Kleene iteration)

def ttc_is_distribution(ttc) -> bool:
    return bool(ttc) and isinstance(ttc, dict) and 'name' in ttc and ttc['name'] not in ('Enabled', 'Disabled')


def ref_apriori(nodes, edges):
    """nodes: list of dicts with type / defense_status / existence_status / ttc; edges [[i,j]].
    -> (viable[], necessary[])"""
    n = len(nodes)
    parents = [[] for _ in range(n)]
    for i, j in edges:
        parents[j].append(i)
    via = [True] * n
    nec = [True] * n
    fixed = [False] * n
    for i, d in enumerate(nodes):
        t = d['type']
        if t == 'defense':
            via[i] = d['defense_status'] != 1.0
            nec[i] = d['defense_status'] != 0.0
            fixed[i] = True
        elif t == 'exist':
            via[i] = bool(d['existence_status'])
            nec[i] = not d['existence_status']
            fixed[i] = True
        elif t == 'notExist':
            via[i] = not d['existence_status']
            nec[i] = bool(d['existence_status'])
            fixed[i] = True
    gated = [ttc_is_distribution(d['ttc']) for d in nodes]
    changed = True
    while changed:
        changed = False
        for i, d in enumerate(nodes):
            if fixed[i] or not parents[i]:
                continue
            if d['type'] == 'or':
                v = any(via[p] for p in parents[i])
                c = all(nec[p] or gated[p] for p in parents[i])
            elif d['type'] == 'and':
                v = all(via[p] for p in parents[i])
                c = any(nec[p] or gated[p] for p in parents[i])
            else:
                continue
            # downward iteration only: labels never go back to True
            v = v and via[i]
            c = c and nec[i]
            if v != via[i] or c != nec[i]:
                via[i], nec[i] = v, c
                changed = True
    return via, nec


# ---------------------------------------------------------------------------------------------
# structural snapshot of a graph (for purity / copy / round-trip comparisons)

def snapshot(g):
    """typed, order-insensitive snapshot keyed by node id"""
    nodes = {}
    for n in g.nodes:
        nodes[n.id] = {
            'name': n.name, 'full_name': n.full_name, 'type': n.type, 'ttc': _plain(n.ttc),
            'defense_status': None if n.defense_status is None else float(n.defense_status),
            'existence_status': n.existence_status, 'is_viable': n.is_viable,
            'is_necessary': n.is_necessary, 'mitre_info': n.mitre_info, 'tags': _plain(n.tags),
            'extras': _plain(n.extras),
            'children': sorted(c.id for c in n.children), 'parents': sorted(p.id for p in n.parents),
            'compromised_by': sorted(a.id for a in n.compromised_by),
            'asset': None if n.asset is None else str(n.asset.name),
        }
    atts = {}
    for a in g.attackers:
        atts[a.id] = {'name': a.name, 'entry_points': sorted(x.id for x in a.entry_points),
                      'reached': sorted(x.id for x in a.reached_attack_steps)}
    return {'nodes': nodes, 'attackers': atts}


def _plain(x):
    import copy
    from .modelstate import plain
    return copy.deepcopy(plain(x))


def structural_problems(g, removed_ids=(), removed_names=(), removed_attacker_ids=()):
    """C09 invariants I1-I3 -> list of (signature, message)"""
    out = []
    nodes = list(g.nodes)
    ident = {id(n) for n in nodes}
    ids = [n.id for n in nodes]
    if len(set(ids)) != len(ids):
        out.append(('I2:id-held-by-two-nodes', str(sorted(ids))))
    for n in nodes:
        for c in n.children:
            if id(c) not in ident:
                out.append(('I1:child-not-in-graph', f'{n.full_name} -> {c.full_name}'))
            elif sum(1 for x in n.children if x is c) != sum(1 for x in c.parents if x is n):
                out.append(('I1:child-not-mirrored', f'{n.full_name} -> {c.full_name}'))
        for p in n.parents:
            if id(p) not in ident:
                out.append(('I1:parent-not-in-graph', f'{p.full_name} -> {n.full_name}'))
            elif sum(1 for x in n.parents if x is p) != sum(1 for x in p.children if x is n):
                out.append(('I1:parent-not-mirrored', f'{p.full_name} -> {n.full_name}'))
        if g.get_node_by_id(n.id) is not n:
            out.append(('I2:lookup-by-id-missing-or-stale', f'{n.full_name} ({n.id})'))
        if g.get_node_by_full_name(n.full_name) is not n:
            # two live nodes may legitimately share a full name only if the graph was built that way
            same = [m for m in nodes if m.full_name == n.full_name]
            if len(same) == 1:
                out.append(('I2:lookup-by-name-missing-or-stale', f'{n.full_name}'))
        for a in n.compromised_by:
            if not any(a is b for b in g.attackers):
                out.append(('I3:node-lists-attacker-not-in-graph', f'{n.full_name} <- {a.name}'))
    for i in removed_ids:
        if i not in ids and g.get_node_by_id(i) is not None:
            out.append(('I2:lookup-by-id-returns-removed-node', str(i)))
    live_names = {n.full_name for n in nodes}
    for nm in removed_names:
        if nm not in live_names and g.get_node_by_full_name(nm) is not None:
            out.append(('I2:lookup-by-name-returns-removed-node', nm))
    aids = [a.id for a in g.attackers]
    if len(set(aids)) != len(aids):
        out.append(('I3:attacker-id-held-twice', str(aids)))
    for a in g.attackers:
        for x in list(a.entry_points) + list(a.reached_attack_steps):
            if id(x) not in ident:
                out.append(('I3:attacker-references-node-not-in-graph', f'{a.name} -> {x.full_name}'))
        if g.get_attacker_by_id(a.id) is not a:
            out.append(('I3:attacker-lookup-missing-or-stale', f'{a.name} ({a.id})'))
    for i in removed_attacker_ids:
        if i not in aids and g.get_attacker_by_id(i) is not None:
            out.append(('I3:attacker-lookup-returns-removed', str(i)))
    return out
