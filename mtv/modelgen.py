"""G_model: instance models as plain descriptions, and the builder that turns a description into
toolbox objects through the public API.

description = {
  'assets':    [{'type': T, 'name': str|None, 'id': int|None, 'defenses': {step: value}}],
  'links':     [{'assoc': k, 'left': [asset idx], 'right': [asset idx]}],
  'attackers': [{'name': str|None, 'id': int|None, 'entry_points': [[asset idx, [step,...]],...]}],
}
The abstract content is the description itself; oracles never read it back from the Model.
"""
from __future__ import annotations

import copy

from hypothesis import strategies as st

from .ref_lang import Lang

PLAIN_NAMES = ['n0', 'n1', 'n2', 'n3', 'n4', 'n5', 'n6', 'n7', 'n8', 'n9']
WEIRD_NAMES = ['a', 'a', 'b', 'a:1', 'a:2', 'b:0', 'x:y', 'yes', '1', ': x', '"q"', 'é-ü', 'null',
               'a b', '- dash', '#c']
DEFENSE_VALUES = [0.0, 1.0, 0.5, 0.25, 0, 1]


def assoc_class_name(spec, k) -> str:
    a = spec['associations'][k]
    n = sum(1 for b in spec['associations'] if b['name'] == a['name'])
    return a['name'] if n == 1 else f"{a['name']}_{a['leftAsset']}_{a['rightAsset']}"


def defenses_of(L: Lang, t: str) -> dict:
    """defense step name -> default value (1 when declared Enabled, else 0)"""
    out = {}
    for n, s in L.fold(t).items():
        if s['type'] == 'defense':
            out[n] = 1.0 if (s['ttc'] and s['ttc'].get('name') == 'Enabled') else 0.0
    return out


@st.composite
def models(draw, spec, max_assets=6, weird_names=False, explicit_ids=False, attackers=True,
           max_links_per_assoc=4, multi_member=True, defenses=True, min_assets=0):
    L = Lang(spec)
    concrete = L.concrete()
    n = draw(st.integers(min_assets, max_assets)) if concrete else 0
    assets = []
    used_ids = set()
    next_id = 0
    for i in range(n):
        t = draw(st.sampled_from(concrete))
        name = draw(st.sampled_from(WEIRD_NAMES)) if weird_names else PLAIN_NAMES[i % 10] + ('' if i < 10 else str(i))
        aid = None
        if explicit_ids and draw(st.integers(0, 9)) < 4:
            aid = draw(st.sampled_from([0, -1, -3, 7, 2, 11]))
            if aid in used_ids:
                aid = None
        # ids are reserved by earlier assets whether requested or assigned automatically
        eff = aid if aid is not None else next_id
        used_ids.add(eff)
        next_id = max(eff + 1, next_id)
        dv = {}
        if defenses:
            for dname in sorted(defenses_of(L, t)):
                if draw(st.integers(0, 9)) < 4:
                    dv[dname] = draw(st.sampled_from(DEFENSE_VALUES))
        assets.append({'type': t, 'name': name, 'id': aid, 'defenses': dv})
    links = []
    for k, a in enumerate(spec['associations']):
        lefts = [i for i, x in enumerate(assets) if L.is_sub(x['type'], a['leftAsset'])]
        rights = [i for i, x in enumerate(assets) if L.is_sub(x['type'], a['rightAsset'])]
        if not lefts or not rights:
            continue
        used_pairs = set()
        lmax = a['leftMultiplicity']['max'] or 3
        rmax = a['rightMultiplicity']['max'] or 3
        for _ in range(draw(st.integers(0, max_links_per_assoc))):
            if multi_member and draw(st.integers(0, 9)) < 3:
                ls = draw(st.lists(st.sampled_from(lefts), min_size=1, max_size=min(3, lmax), unique=True))
                rs = draw(st.lists(st.sampled_from(rights), min_size=1, max_size=min(3, rmax), unique=True))
            else:
                ls = [draw(st.sampled_from(lefts))]
                rs = [draw(st.sampled_from(rights))]
            pairs = {(l, r) for l in ls for r in rs}
            if pairs & used_pairs:
                continue
            used_pairs |= pairs
            links.append({'assoc': k, 'left': ls, 'right': rs})
    atts = []
    if attackers and assets:
        for j in range(draw(st.integers(0, 2))):
            eps = []
            for i in draw(st.lists(st.integers(0, len(assets) - 1), max_size=3, unique=True)):
                names = L.step_names(assets[i]['type']) + ['noSuchStep']
                steps = draw(st.lists(st.sampled_from(names), min_size=1, max_size=3, unique=True))
                eps.append([i, steps])
            atts.append({'name': f'Attacker{j}', 'id': None, 'entry_points': eps})
    return {'assets': assets, 'links': links, 'attackers': atts}


@st.composite
def lang_and_model(draw, lang_kwargs=None, model_kwargs=None):
    from .langgen import languages
    spec = draw(languages(**(lang_kwargs or {})))
    m = draw(models(spec, **(model_kwargs or {})))
    return {'spec': spec, 'model': m}


# ---------------------------------------------------------------------------------------------
# builders (touch the toolbox)

def build_language(spec, copy_spec=True):
    from maltoolbox.language import LanguageGraph, LanguageClassesFactory
    s = copy.deepcopy(spec) if copy_spec else spec
    lg = LanguageGraph(s)
    cf = LanguageClassesFactory(lg)
    return lg, cf


def build_model(cf, spec, mdesc, name='m'):
    """-> (model, [asset objects in description order])"""
    from maltoolbox.model import Model, AttackerAttachment
    model = Model(name, cf)
    objs = []
    for a in mdesc['assets']:
        kw = {}
        if a.get('name') is not None:
            kw['name'] = a['name']
        obj = getattr(cf.ns, a['type'])(**kw)
        for dname, val in (a.get('defenses') or {}).items():
            setattr(obj, dname, val)
        if a.get('extras'):
            obj.extras = a['extras']
        if a.get('id') is None:
            model.add_asset(obj)
        else:
            model.add_asset(obj, asset_id=a['id'])
        objs.append(obj)
    for ln in mdesc['links']:
        a = spec['associations'][ln['assoc']]
        cls = getattr(cf.ns, assoc_class_name(spec, ln['assoc']))
        assoc = cls()
        setattr(assoc, a['leftField'], [objs[i] for i in ln['left']])
        setattr(assoc, a['rightField'], [objs[i] for i in ln['right']])
        model.add_association(assoc)
    for at in mdesc.get('attackers', []):
        att = AttackerAttachment()
        if at.get('name') is not None:
            att.name = at['name']
        att.entry_points = []
        for i, steps in at['entry_points']:
            for s in steps:
                att.add_entry_point(objs[i], s)
        if at.get('id') is None:
            model.add_attacker(att)
        else:
            model.add_attacker(att, attacker_id=at['id'])
    return model, objs


# ---------------------------------------------------------------------------------------------
# the language shipped with the repository (coreLang, produced by the reference compiler malc)

_SHIPPED = {}


def shipped_spec(name='org.mal-lang.coreLang-1.0.0.mar'):
    import json
    import os
    import zipfile
    from .env import REPO
    if name not in _SHIPPED:
        p = os.path.join(REPO, 'tests', 'testdata', name)
        _SHIPPED[name] = None
        if os.path.exists(p):
            with zipfile.ZipFile(p) as z:
                _SHIPPED[name] = json.loads(z.read('langspec.json'))
    return _SHIPPED[name]


@st.composite
def corelang_models(draw, max_assets=7, **kw):
    """models over coreLang restricted to a handful of asset types so that links are frequent"""
    spec = shipped_spec()
    L = Lang(spec)
    pool = draw(st.lists(st.sampled_from(L.concrete()), min_size=2, max_size=5, unique=True))
    sub = dict(spec)
    m = draw(models(_restrict(spec, pool), max_assets=max_assets, **kw))
    return m


def _restrict(spec, pool):
    """a view of the specification whose only concrete assets are those in pool (associations and
    inheritance stay as they are, so association indexes remain valid)"""
    view = dict(spec)
    view['assets'] = [dict(a, isAbstract=(a['isAbstract'] or a['name'] not in pool)) for a in spec['assets']]
    return view


def resolve_spec(case):
    """cases over the shipped coreLang carry {'lang': 'corelang', 'pool': [...]} instead of the (large) spec"""
    if case.get('lang') == 'corelang':
        spec = shipped_spec()
        return None if spec is None else _restrict(spec, case['pool'])
    return case.get('spec')


@st.composite
def corelang_pool(draw, min_size=2, max_size=4):
    L = Lang(shipped_spec())
    return draw(st.lists(st.sampled_from(L.concrete()), min_size=min_size, max_size=max_size, unique=True))
