"""Reference view of a MAL language specification (langspec dict).

Written from the MAL documentation and the property statements; imports nothing from maltoolbox.
"""
from __future__ import annotations

import copy


class Lang:
    def __init__(self, spec: dict):
        self.spec = spec
        self.assets = {a['name']: a for a in spec['assets']}
        self.order = [a['name'] for a in spec['assets']]
        self.parent = {a['name']: a['superAsset'] for a in spec['assets']}
        self.assocs = list(spec['associations'])

    # ---- inheritance ------------------------------------------------------------------------
    def chain(self, t: str) -> list:
        """[t, parent(t), ..., root]"""
        out = []
        while t is not None:
            out.append(t)
            t = self.parent[t]
        return out

    def is_sub(self, t: str, anc: str) -> bool:
        """reflexive-transitive subtype relation"""
        return anc in self.chain(t)

    def descendants(self, t: str) -> list:
        """t and everything that directly or indirectly extends it"""
        return [x for x in self.order if self.is_sub(x, t)]

    def children(self, t: str) -> list:
        return [x for x in self.order if self.parent[x] == t]

    def root(self, t: str) -> str:
        return self.chain(t)[-1]

    def lca(self, a: str, b: str):
        ca = self.chain(a)
        for x in self.chain(b):
            if x in ca:
                return x
        return None

    def concrete(self) -> list:
        return [n for n in self.order if not self.assets[n]['isAbstract']]

    # ---- fields -----------------------------------------------------------------------------
    def fields(self, t: str) -> dict:
        """field name -> (association index, side of the *target* ('left'|'right'), target type)
        for every field visible on type t (own and inherited)."""
        out = {}
        for k, a in enumerate(self.assocs):
            # from an asset on the left one navigates through the right field and vice versa
            if self.is_sub(t, a['leftAsset']):
                out.setdefault(a['rightField'], []).append((k, 'right', a['rightAsset']))
            if self.is_sub(t, a['rightAsset']):
                out.setdefault(a['leftField'], []).append((k, 'left', a['leftAsset']))
        return out

    def assocs_of(self, t: str) -> list:
        """indexes of associations in which t or one of its ancestors takes part"""
        return [k for k, a in enumerate(self.assocs)
                if self.is_sub(t, a['leftAsset']) or self.is_sub(t, a['rightAsset'])]

    # ---- variables --------------------------------------------------------------------------
    def variable(self, t: str, name: str):
        for x in self.chain(t):
            for v in self.assets[x]['variables']:
                if v['name'] == name:
                    return v['stepExpression']
        return None

    def variables_visible(self, t: str) -> dict:
        out = {}
        for x in reversed(self.chain(t)):
            for v in self.assets[x]['variables']:
                out[v['name']] = (x, v['stepExpression'])
        return out

    # ---- steps: the inheritance fold (C03) --------------------------------------------------
    def fold(self, t: str) -> dict:
        """Steps exposed by type t: ancestors' declarations folded from the root down.
        first declaration defines; '->' replaces; '+>' keeps and appends its expressions;
        a redefinition without reaches leaves the inherited definition untouched."""
        steps = {}
        for x in reversed(self.chain(t)):
            for s in self.assets[x]['attackSteps']:
                n = s['name']
                if n not in steps:
                    steps[n] = copy.deepcopy(s)
                elif not s['reaches']:
                    continue
                elif s['reaches']['overrides']:
                    steps[n] = copy.deepcopy(s)
                else:
                    cur = steps[n]
                    old = list(cur['reaches']['stepExpressions']) if cur['reaches'] else []
                    cur['reaches'] = {
                        'overrides': cur['reaches']['overrides'] if cur['reaches'] else False,
                        'stepExpressions': old + copy.deepcopy(s['reaches']['stepExpressions']),
                    }
        return steps

    def step_names(self, t: str) -> list:
        out = []
        for x in reversed(self.chain(t)):
            for s in self.assets[x]['attackSteps']:
                if s['name'] not in out:
                    out.append(s['name'])
        return out

    def step_type(self, t: str, name: str):
        for x in reversed(self.chain(t)):
            for s in self.assets[x]['attackSteps']:
                if s['name'] == name:
                    return s['type']
        return None


def expr_size(e) -> int:
    if not isinstance(e, dict):
        return 0
    n = 1
    for k in ('lhs', 'rhs', 'stepExpression'):
        if k in e:
            n += expr_size(e[k])
    return n


def expr_ops(e, acc=None) -> set:
    """set of operator kinds used in an expression (variables are not expanded)"""
    if acc is None:
        acc = set()
    if isinstance(e, dict):
        acc.add(e['type'])
        for k in ('lhs', 'rhs', 'stepExpression'):
            if k in e:
                expr_ops(e[k], acc)
    return acc
