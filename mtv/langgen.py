"""G_lang: Hypothesis strategy for well-formed MAL languages, produced as langspec dicts.

Well-formedness (what malc enforces) holds by construction - no assume()/filter():
single-inheritance forest, field names unique per asset including inherited ones and disjoint
from step and variable names, no variable shadowing along a chain, redefinitions keep the step
type, '+>' only when an ancestor defines the step, typed step expressions (set operators between
types with a common ancestor, subType to a descendant, transitive over an expression whose type
is the source type or a sub-asset of it, steps named in an expression exist on its static type).
"""
from __future__ import annotations

from hypothesis import strategies as st

from .ref_lang import Lang

ASSET_NAMES = ['Host', 'Net', 'User', 'Data', 'App', 'Cred', 'Vuln']
CATEGORY_NAMES = ['System', 'Org']
STEP_NAMES = ['access', 'breach', 'copy', 'deny', 'evade', 'forge', 'guard']
FIELD_STEMS = ['hosts', 'nets', 'users', 'data', 'apps', 'creds', 'peers', 'owners', 'parts',
               'links', 'nodes', 'items']
VAR_NAMES = ['allv', 'reach', 'grp', 'sel']
ASSOC_NAMES = ['Conn', 'Owns', 'Runs', 'Holds', 'Uses']
TAGS = ['hidden', 'debug', 'trace', 'suppress']
META_KEYS = ['user', 'developer', 'modeler', 'mitre']
META_VALUES = ['plain text', 'T1078 Valid Accounts', 'x', 'with: colon', "it's", 'a/b (c)']
DISTS = [('Exponential', 1), ('Bernoulli', 1), ('Gamma', 2), ('Uniform', 2), ('EasyAndCertain', 0),
         ('LogNormal', 2)]
MULTS = [(0, 1), (1, 1), (1, None), (0, None)]


def _meta(draw, p=0.3):
    out = {}
    if draw(st.integers(0, 99)) < p * 100:
        for k in draw(st.lists(st.sampled_from(META_KEYS), min_size=1, max_size=2, unique=True)):
            out[k] = draw(st.sampled_from(META_VALUES))
    return out


def _number(draw):
    return draw(st.sampled_from([0.0, 1.0, 2.0, 0.5, 0.25, 10.0, 3.0]))


def _ttc_fun(draw):
    name, nargs = draw(st.sampled_from(DISTS))
    return {'type': 'function', 'name': name, 'arguments': [_number(draw) for _ in range(nargs)]}


def _ttc_tree(draw, depth):
    if depth <= 0 or draw(st.integers(0, 2)) == 0:
        if draw(st.integers(0, 3)) == 0:
            return {'type': 'number', 'value': _number(draw)}
        return _ttc_fun(draw)
    op = draw(st.sampled_from(['addition', 'subtraction', 'multiplication', 'division',
                               'exponentiation']))
    return {'type': op, 'lhs': _ttc_tree(draw, depth - 1), 'rhs': _ttc_tree(draw, depth - 1)}


def _ttc(draw, step_type, arith=True):
    k = draw(st.integers(0, 9))
    if step_type == 'defense':
        if k < 3:
            return None
        return {'type': 'function', 'name': 'Enabled' if k < 6 else 'Disabled', 'arguments': []}
    if step_type in ('exist', 'notExist'):
        return None
    if k < 4:
        return None
    if k < 8 or not arith:
        return _ttc_fun(draw)
    return _ttc_tree(draw, 2)


class _Gen:
    """typed expression generator over a (partially built) language"""

    def __init__(self, draw, spec, max_depth):
        self.draw = draw
        self.spec = spec
        self.L = Lang(spec)
        self.max_depth = max_depth
        self.vartype = {}     # (owner, name) -> result type

    def refresh(self):
        self.L = Lang(self.spec)

    def visible_vars(self, T):
        out = []
        for x in self.L.chain(T):
            for v in self.L.assets[x]['variables']:
                out.append((v['name'], self.vartype[(x, v['name'])]))
        return out

    def expr(self, T, depth, use_vars=True):
        """-> (tree, result type R, filter type lo) or None when T offers nothing to navigate.
        R is the static type used for member access (fields / steps / variables after a dot); lo <= R
        is the type every element is known to have under the closure+ reading of '*' (the toolbox
        types X* by its operand, the MAL documentation by the source type) - subtype filters are
        only generated below lo so that the program is well-typed under both readings."""
        d = self.draw
        fields = self.L.fields(T)
        vars_ = self.visible_vars(T) if use_vars else []
        if not fields and not vars_:
            return None
        opts = []
        if fields:
            opts += ['field'] * 4
        if vars_:
            opts += ['variable'] * 2
        if depth > 0 and fields:
            opts += ['collect'] * 2 + ['setop'] * 3 + ['subtype'] * 2 + ['transitive'] * 2
        kind = d(st.sampled_from(opts))
        if kind == 'field':
            return self._field(T, fields)
        if kind == 'variable':
            name, (R, lo) = d(st.sampled_from(vars_))
            return ({'type': 'variable', 'name': name}, R, lo)
        if kind == 'collect':
            e1 = self.expr(T, depth - 1, use_vars)
            e2 = self.expr(e1[1], depth - 1, use_vars)
            if e2 is None:
                return e1
            return ({'type': 'collect', 'lhs': e1[0], 'rhs': e2[0]}, e2[1], e2[2])
        if kind == 'setop':
            e1 = self.expr(T, depth - 1, use_vars)
            e2 = None
            for _ in range(2):
                c = self.expr(T, depth - 1, use_vars)
                if self.L.lca(e1[2], c[2]) is not None:
                    e2 = c
                    break
            if e2 is None:
                cands = sorted(f for f, v in fields.items()
                               if self.L.lca(v[0][2], e1[1]) is not None)
                if not cands:
                    return e1
                f = d(st.sampled_from(cands))
                e2 = ({'type': 'field', 'name': f}, fields[f][0][2], fields[f][0][2])
            op = d(st.sampled_from(['union', 'intersection', 'difference']))
            return ({'type': op, 'lhs': e1[0], 'rhs': e2[0]}, self.L.lca(e1[1], e2[1]),
                    self.L.lca(e1[2], e2[2]))
        if kind == 'subtype':
            e = self.expr(T, depth - 1, use_vars)
            desc = self.L.descendants(e[2])
            strict = [x for x in desc if x != e[2]]
            if strict and d(st.integers(0, 9)) < 9:
                S = d(st.sampled_from(strict))
            else:
                S = e[2]
                if not strict and d(st.booleans()):
                    return e
            return ({'type': 'subType', 'subType': S, 'stepExpression': e[0]}, S, S)
        if kind == 'transitive':
            cands = sorted(f for f, v in fields.items() if self.L.is_sub(v[0][2], T))
            if not cands:
                return self._field(T, fields)
            f1 = d(st.sampled_from(cands))
            inner = {'type': 'field', 'name': f1}
            lo = fields[f1][0][2]
            if len(cands) > 1 and d(st.integers(0, 4)) == 0:
                # minority class: transitive over a parenthesised expression
                f2 = d(st.sampled_from(cands))
                kind2 = d(st.sampled_from(['union', 'collect']))
                inner = {'type': kind2, 'lhs': inner, 'rhs': {'type': 'field', 'name': f2}}
                lo = self.L.lca(lo, fields[f2][0][2]) if kind2 == 'union' else fields[f2][0][2]
            return ({'type': 'transitive', 'stepExpression': inner}, T, lo)
        raise AssertionError(kind)

    def _field(self, T, fields):
        f = self.draw(st.sampled_from(sorted(fields)))
        return ({'type': 'field', 'name': f}, fields[f][0][2], fields[f][0][2])

    def reach(self, T, step_types):
        """one reaches expression from type T, or None"""
        d = self.draw
        attackable = lambda R: [s for s in self.L.step_names(R) if step_types[s] in ('or', 'and')]
        local = attackable(T)
        if d(st.integers(0, 9)) < 7:
            e = self.expr(T, self.max_depth)
            if e is not None:
                tgt = attackable(e[1])
                if tgt:
                    return {'type': 'collect', 'lhs': e[0],
                            'rhs': {'type': 'attackStep', 'name': d(st.sampled_from(tgt))}}
        if local:
            return {'type': 'attackStep', 'name': d(st.sampled_from(local))}
        return None


@st.composite
def languages(draw, max_assets=5, max_expr_depth=2, deep_chains=False, arith_ttc=True,
              dup_assoc_names=True, min_assets=1, shuffle_assets=True):
    n_assets = draw(st.integers(min_assets, max_assets))
    names = ASSET_NAMES[:n_assets]
    n_cat = draw(st.integers(1, 2))
    categories = [{'name': CATEGORY_NAMES[i], 'meta': _meta(draw, 0.2)} for i in range(n_cat)]
    assets = []
    for i, n in enumerate(names):
        parent = None
        if i > 0:
            if deep_chains:
                # favour chains and siblings
                k = draw(st.integers(0, 9))
                parent = names[i - 1] if k < 5 else (names[draw(st.integers(0, i - 1))] if k < 9 else None)
            elif draw(st.integers(0, 9)) < 6:
                parent = names[draw(st.integers(0, i - 1))]
        assets.append({'name': n, 'meta': _meta(draw, 0.2),
                       'category': categories[draw(st.integers(0, n_cat - 1))]['name'],
                       'isAbstract': False, 'superAsset': parent, 'variables': [],
                       'attackSteps': []})
    spec = {'formatVersion': '1.0.0', 'defines': {'id': 'org.verif.lang', 'version': '1.0.0'},
            'categories': categories, 'assets': assets, 'associations': []}
    g = _Gen(draw, spec, max_expr_depth)
    L = g.L
    # abstractness: only assets with at least one descendant may be abstract; keep >=1 concrete
    for a in assets:
        if L.children(a['name']) and draw(st.integers(0, 9)) < 3:
            a['isAbstract'] = True

    # ---- associations ------------------------------------------------------------------------
    n_assoc = draw(st.integers(0, min(6, 2 * n_assets)))
    used_fields = {}   # field name -> set of roots of owner types
    field_targets = {}  # field name -> set of target types
    used_sigs = set()
    fcount = 0
    for k in range(n_assoc):
        left = names[draw(st.integers(0, n_assets - 1))]
        right = names[draw(st.integers(0, n_assets - 1))]
        if dup_assoc_names and k > 0 and draw(st.integers(0, 9)) < 3:
            prev = spec['associations'][draw(st.integers(0, k - 1))]
            aname = prev['name']
            if prev['leftAsset'] != prev['rightAsset'] and draw(st.integers(0, 2)) == 0:
                # the same name between the same two types in the opposite orientation
                left, right = prev['rightAsset'], prev['leftAsset']
        else:
            aname = ASSOC_NAMES[k % len(ASSOC_NAMES)] + (str(k) if k >= len(ASSOC_NAMES) else '')
        if (aname, left, right) in used_sigs:
            aname = f'{aname}{k}x'
        used_sigs.add((aname, left, right))

        def fresh_field(owner, avoid, target):
            # owner = type from which the field is visible; reuse a name only across trees
            nonlocal fcount
            root = L.root(owner)
            reuse = sorted(f for f, roots in used_fields.items() if root not in roots and f != avoid)
            same_target = [f for f in reuse if target in field_targets.get(f, ())]
            if reuse and draw(st.integers(0, 9)) < 3:
                f = draw(st.sampled_from(same_target if same_target and draw(st.booleans()) else reuse))
            else:
                f = FIELD_STEMS[fcount % len(FIELD_STEMS)] + (str(fcount // len(FIELD_STEMS)) if fcount >= len(FIELD_STEMS) else '')
                fcount += 1
            used_fields.setdefault(f, set()).add(root)
            field_targets.setdefault(f, set()).add(target)
            return f
        # leftField holds left-typed assets and is visible from the right type (and vice versa)
        lf = fresh_field(right, None, left)
        rf = fresh_field(left, lf, right)
        lm = draw(st.sampled_from(MULTS))
        rm = draw(st.sampled_from(MULTS))
        spec['associations'].append({
            'name': aname, 'meta': _meta(draw, 0.15),
            'leftAsset': left, 'leftField': lf, 'leftMultiplicity': {'min': lm[0], 'max': lm[1]},
            'rightAsset': right, 'rightField': rf, 'rightMultiplicity': {'min': rm[0], 'max': rm[1]}})
    g.refresh()
    L = g.L

    # ---- step declarations (names and types first, expressions later) -------------------------
    n_steps = draw(st.integers(2, len(STEP_NAMES)))
    pool = STEP_NAMES[:n_steps]
    step_types = {}
    for i, s in enumerate(pool):
        if i == 0:
            step_types[s] = 'or'
        else:
            step_types[s] = draw(st.sampled_from(['or', 'or', 'or', 'and', 'and', 'defense', 'defense',
                                                  'exist', 'notExist']))
    decl = {}   # asset -> [step names]
    for a in assets:
        has_fields = bool(L.fields(a['name']))
        inherited = L.step_names(a['name'])  # from ancestors declared so far
        mine = []
        for s in pool:
            if step_types[s] in ('exist', 'notExist') and not has_fields:
                continue
            p = 6 if (a['superAsset'] is None) else (6 if s in inherited else 3)
            if deep_chains and s in inherited:
                p = 8
            if draw(st.integers(0, 9)) < p:
                mine.append(s)
        if a['superAsset'] is None and not mine:
            mine = [pool[0]]
        decl[a['name']] = mine
        # placeholder so that step_names() of descendants sees them
        a['attackSteps'] = [{'name': s, 'type': step_types[s]} for s in mine]
        g.refresh()
        L = g.L

    # ---- variables ------------------------------------------------------------------------------
    used_vars = {}   # root of the inheritance tree -> variable names used in that tree
    for a in assets:
        if not L.fields(a['name']):
            continue
        for _ in range(draw(st.integers(0, 2)) if draw(st.integers(0, 9)) < 5 else 0):
            # no shadowing along a chain: names are unique per inheritance tree, but the same name is
            # deliberately reused in unrelated trees (with a different body)
            taken = used_vars.setdefault(L.root(a['name']), set())
            free = [v for v in VAR_NAMES if v not in taken]
            if not free:
                break
            e = g.expr(a['name'], max(1, max_expr_depth - 1))
            if e is None:
                break
            vn = free[0]
            taken.add(vn)
            a['variables'].append({'name': vn, 'stepExpression': e[0]})
            g.vartype[(a['name'], vn)] = (e[1], e[2])
            g.refresh()
            L = g.L

    # ---- step bodies ------------------------------------------------------------------------------
    for a in assets:
        T = a['name']
        anc_steps = set()
        for x in L.chain(T)[1:]:
            anc_steps.update(decl[x])
        steps = []
        for s in decl[T]:
            typ = step_types[s]
            redef = s in anc_steps
            k = draw(st.integers(0, 9))
            if redef:
                mode = 'none' if k < 3 else ('override' if k < 6 else 'extend')
            else:
                mode = 'none' if k < 3 else 'override'
            reaches = None
            if mode != 'none':
                exprs = []
                for _ in range(draw(st.integers(1, 3))):
                    r = g.reach(T, step_types)
                    if r is not None:
                        exprs.append(r)
                if exprs:
                    reaches = {'overrides': mode == 'override', 'stepExpressions': exprs}
            requires = None
            if typ in ('exist', 'notExist'):
                reqs = []
                for _ in range(1 if draw(st.integers(0, 9)) < 9 else 2):
                    e = g.expr(T, max_expr_depth)
                    if e is not None:
                        reqs.append(e[0])
                requires = {'overrides': True, 'stepExpressions': reqs}
            risk = None
            if typ in ('or', 'and') and draw(st.integers(0, 9)) < 2:
                risk = {'isConfidentiality': draw(st.booleans()), 'isIntegrity': draw(st.booleans()),
                        'isAvailability': draw(st.booleans())}
                if not any(risk.values()):
                    risk['isConfidentiality'] = True
            tags = draw(st.lists(st.sampled_from(TAGS), max_size=2, unique=True)) \
                if draw(st.integers(0, 9)) < 3 else []
            steps.append({'name': s, 'meta': _meta(draw, 0.2), 'type': typ, 'tags': tags,
                          'risk': risk, 'ttc': _ttc(draw, typ, arith_ttc), 'requires': requires,
                          'reaches': reaches})
        a['attackSteps'] = steps
    if shuffle_assets and len(assets) > 1 and draw(st.booleans()):
        # a sub-asset may be declared before its super-asset (as in coreLang)
        spec['assets'] = list(draw(st.permutations(assets)))
    return spec


def lang_classes(spec) -> list:
    """labels describing which constructs a language contains"""
    from .ref_lang import expr_ops
    L = Lang(spec)
    ops = set()
    out = set()
    for a in spec['assets']:
        for v in a['variables']:
            ops |= expr_ops(v['stepExpression'])
        for s in a['attackSteps']:
            for key in ('reaches', 'requires'):
                if s.get(key):
                    for e in s[key]['stepExpressions']:
                        ops |= expr_ops(e)
            if s['reaches'] and not s['reaches']['overrides']:
                out.add('lang:extend')
        depth = len(L.chain(a['name']))
        if depth >= 3:
            out.add('lang:depth>=3')
        elif depth == 2:
            out.add('lang:depth>=2')
    for o in ops:
        if o in ('union', 'intersection', 'difference'):
            out.add('lang:setop')
        if o in ('subType', 'transitive', 'variable', 'union', 'intersection', 'difference'):
            out.add('lang:' + o)
    an = [a['name'] for a in spec['associations']]
    if len(an) != len(set(an)):
        out.add('lang:dup-assoc-name')
    if any(a['leftAsset'] == a['rightAsset'] for a in spec['associations']):
        out.add('lang:self-assoc')
    return sorted(out)
