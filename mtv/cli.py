"""./check <ID> [--tier quick|thorough] [--replay PATH]"""
from __future__ import annotations

import argparse
import os
import sys
import traceback


def main(argv=None) -> int:
    ap = argparse.ArgumentParser(prog='check')
    ap.add_argument('property')
    ap.add_argument('--tier', default=os.environ.get('VERIF_TIER') or 'quick',
                    choices=['quick', 'thorough'])
    ap.add_argument('--replay', default=None)
    ap.add_argument('--seed', type=int, default=None)
    args = ap.parse_args(argv)
    seed = args.seed
    if seed is None:
        try:
            seed = int(os.environ.get('VERIF_SEED', '1') or '1')
        except ValueError:
            seed = 1
    try:
        from . import driver
        if args.replay:
            return driver.run_replay(args.property.upper(), os.path.abspath(args.replay))
        return driver.run_property(args.property.upper(), args.tier, seed)
    except SystemExit:
        raise
    except BaseException:  # noqa: BLE001
        sys.stderr.write('HARNESS ERROR\n' + traceback.format_exc())
        return 2


if __name__ == '__main__':
    sys.exit(main())
