"""Generic driver: runs the clauses of one property on up to 16 worker processes, buckets
discrepancies by root-cause signature, shrinks per signature, writes replays and evidence.

A property module (mtv/props/cNN.py) exports

    PROPERTY  = 'C01'
    RULE      = '<how cases are generated and what makes one non-trivial>'
    ASSUMPTIONS = [...]
    CLAUSES   = [Clause(...), ...]

Each clause has a `check(case) -> Outcome`.  Cases are plain JSON-able data.
"""
from __future__ import annotations

import hashlib
import json
import os
import sys
import time
import traceback
from collections import Counter
from dataclasses import dataclass, field
from typing import Any, Callable, Iterable, Optional

from . import env

NPROC = int(os.environ.get('VERIF_NPROC', '16'))
MAX_SIGS_PER_RUN = 8


@dataclass
class Outcome:
    """Result of checking one case."""
    discrepancies: list = field(default_factory=list)   # [(signature, message)]
    nontrivial: bool = False
    classes: list = field(default_factory=list)          # labels for the class histogram

    def add(self, sig: str, msg: str = ''):
        self.discrepancies.append((sig, msg))


@dataclass
class Clause:
    name: str
    check: Callable[[Any], Outcome]
    kind: str = 'random'                 # 'random' | 'exhaustive'
    strategy: Optional[Callable[[], Any]] = None        # () -> hypothesis strategy   (random)
    enumerate: Optional[Callable[[str], Iterable]] = None  # tier -> iterable of cases (exhaustive)
    budget: dict = field(default_factory=lambda: {'quick': 1000, 'thorough': 10000})
    shards: dict = field(default_factory=lambda: {'quick': NPROC, 'thorough': NPROC})
    space: str = ''                      # description of the enumerated sub-space (exhaustive)
    max_shrink_s: dict = field(default_factory=lambda: {'quick': 25.0, 'thorough': 180.0})
    memory_is_violation: bool = False    # C01 only: exponential growth of the evaluator is the defect itself


class HarnessError(Exception):
    pass


class _Violation(Exception):
    pass


class _Abort(BaseException):
    """A harness bug inside a check: leave Hypothesis at once (no shrinking of harness errors)."""


class _StopShrink(BaseException):
    """Raised from inside the test function to leave a run-away shrink; not an Exception so that
    Hypothesis lets it through."""


def canon(case) -> str:
    return json.dumps(case, sort_keys=True, separators=(',', ':'), default=str)


def case_hash(case) -> str:
    return hashlib.sha1(canon(case).encode()).hexdigest()[:16]


def derive_seed(*parts) -> int:
    h = hashlib.sha256(('|'.join(str(p) for p in parts)).encode()).digest()
    return int.from_bytes(h[:8], 'big')


class Stats:
    def __init__(self):
        self.evaluations = 0
        self.nontrivial_hashes = set()
        self.classes = Counter()
        self.samples_nt = []
        self.samples_triv = []
        self.excluded_known = Counter()
        self.found = {}          # sig -> {'case':…, 'msg':…, 'size':…}
        self.inconclusive = []
        self.exhaustive_sizes = {}

    def record(self, case, out: Outcome):
        self.evaluations += 1
        if self.evaluations % 64 == 0:
            # the toolbox's schema objects form reference cycles; collect them regularly so that long shards
            # do not run into the address-space limit
            import gc
            gc.collect()
        for c in out.classes:
            self.classes[c] += 1
        if out.nontrivial:
            self.classes['nontrivial'] += 1
            self.nontrivial_hashes.add(case_hash(case))
            if len(self.samples_nt) < 2:
                self.samples_nt.append(case)
        elif len(self.samples_triv) < 1:
            self.samples_triv.append(case)

    def note_found(self, sig, case, msg):
        size = len(canon(case))
        cur = self.found.get(sig)
        if cur is None or size < cur['size']:
            self.found[sig] = {'case': case, 'msg': msg, 'size': size}
            return True
        return False

    def to_payload(self):
        return {
            'evaluations': self.evaluations,
            'nontrivial_hashes': sorted(self.nontrivial_hashes),
            'classes': dict(self.classes),
            'samples_nt': self.samples_nt,
            'samples_triv': self.samples_triv,
            'excluded_known': dict(self.excluded_known),
            'found': self.found,
            'inconclusive': self.inconclusive,
            'exhaustive_sizes': self.exhaustive_sizes,
        }


def _safe_check(clause: Clause, case) -> Outcome:
    """Run the clause's check; an exception escaping the check function itself is a harness
    error (checks catch the exceptions of the code under test where the contract allows them)."""
    try:
        out = clause.check(case)
    except (KeyboardInterrupt, SystemExit, MemoryError):
        raise
    except Exception as e:  # noqa: BLE001
        # An exception that escapes a check while the code under test is executing (the innermost frames, up to
        # the first harness frame, pass through the repository) is the code under test failing at an observation
        # point, not a harness bug: report it as a discrepancy of the case.
        where = _raised_inside_repo(e)
        if where is None:
            raise
        out = Outcome()
        out.add(f'code-under-test-raises:{where}', f'{type(e).__name__}: {str(e)[:200]}')
        return out
    if not isinstance(out, Outcome):
        raise HarnessError(f'{clause.name}: check returned {type(out)}')
    if not clause.memory_is_violation and any('MemoryError' in str(m)[:40] for _, m in out.discrepancies):
        # running out of address space inside a worker is a harness problem, never a verdict on the code
        raise HarnessError(f'{clause.name}: MemoryError while checking a case')
    return out


def _raised_inside_repo(exc):
    """name of the repository function in which (or below which) the exception was raised, if the part of the
    traceback below the last harness frame runs through the repository; None otherwise"""
    repo = os.path.realpath(env.REPO) + os.sep
    verif = os.path.realpath(env.VERIF_DIR) + os.sep
    frames = traceback.extract_tb(exc.__traceback__)
    found = None
    for fr in reversed(frames):
        fn = os.path.realpath(fr.filename) if fr.filename and not fr.filename.startswith('<') else fr.filename
        if fn.startswith(verif):
            break
        if fn.startswith(repo):
            found = fr.name
    return found


def run_random_shard(clause: Clause, n_examples: int, seed_value: int, known_open: set,
                     tier: str, flush: Callable[[str, Any, str], None],
                     claimed: Callable[[str], bool] = lambda sig: False) -> Stats:
    import hypothesis
    from hypothesis import HealthCheck, Phase, given, settings

    stats = Stats()
    excluded = set(known_open)
    remaining = n_examples
    rnd = 0
    strategy = clause.strategy()
    while remaining > 0 and len(stats.found) < MAX_SIGS_PER_RUN:
        target = {'sig': None, 't0': None}
        before = stats.evaluations

        def body(case):
            try:
                out = _safe_check(clause, case)
            except Exception as e:  # noqa: BLE001
                raise _Abort(f'{clause.name}: check raised on case {canon(case)[:2000]}\n'
                             + ''.join(traceback.format_exception(type(e), e, e.__traceback__)))
            if target['sig'] is None:
                stats.record(case, out)
            sigs = {}
            for s, m in out.discrepancies:
                sigs.setdefault(s, m)
            for s in sigs:
                if s in known_open:
                    stats.excluded_known[s] += 1
            if target['sig'] is None:
                new = []
                for s_ in sorted(s for s in sigs if s not in excluded):
                    if claimed(s_):
                        # another shard of this run is already shrinking this root cause
                        excluded.add(s_)
                        stats.classes['signature-claimed-by-another-shard'] += 1
                    else:
                        new.append(s_)
                if new:
                    target['sig'] = new[0]
                    target['t0'] = time.monotonic()
            if target['sig'] is not None:
                if target['sig'] in sigs:
                    if stats.note_found(target['sig'], case, sigs[target['sig']]):
                        flush(target['sig'], case, sigs[target['sig']])
                    if time.monotonic() - target['t0'] > clause.max_shrink_s[tier]:
                        raise _StopShrink()
                    raise _Violation(target['sig'])
                if time.monotonic() - target['t0'] > clause.max_shrink_s[tier]:
                    raise _StopShrink()

        test = given(strategy)(body)
        test = settings(
            max_examples=remaining, database=None, deadline=None, derandomize=False,
            report_multiple_bugs=False, print_blob=False,
            phases=[Phase.generate, Phase.shrink],
            suppress_health_check=[HealthCheck.too_slow, HealthCheck.data_too_large,
                                   HealthCheck.large_base_example],
        )(test)
        test = hypothesis.seed(derive_seed(seed_value, rnd))(test)
        try:
            test()
        except _Violation:
            pass
        except _StopShrink:
            stats.inconclusive.append(f'shrink of {target["sig"]} stopped by wall-clock guard')
        except hypothesis.errors.FailedHealthCheck as e:
            raise HarnessError(f'{clause.name}: health check failed: {e}')
        except hypothesis.errors.Flaky as e:  # includes FlakyFailure
            if target['sig'] is None:
                raise HarnessError(f'{clause.name}: flaky: {e}')
            stats.inconclusive.append(f'flaky while shrinking {target["sig"]}')
        done = stats.evaluations - before
        if target['sig'] is None:
            break
        excluded.add(target['sig'])
        remaining -= max(done, 1)
        rnd += 1
    return stats


def run_exhaustive_shard(clause: Clause, shard: int, nshards: int, known_open: set, tier: str,
                         flush) -> Stats:
    stats = Stats()
    total = 0
    for i, case in enumerate(clause.enumerate(tier)):
        total += 1
        if i % nshards != shard:
            continue
        out = _safe_check(clause, case)
        stats.record(case, out)
        for s, m in out.discrepancies:
            if s in known_open:
                stats.excluded_known[s] += 1
            elif stats.note_found(s, case, m):
                flush(s, case, m)
    stats.exhaustive_sizes[clause.name] = total
    return stats


# ---------------------------------------------------------------------------------------------
# worker entry (top-level so it can be pickled)

def _worker(args):
    prop_id, clause_name, shard, nshards, n_examples, seed_value, tier, known_open = args
    try:
        env.setup()
        mod = load_property(prop_id)
        clause = next(c for c in mod.CLAUSES if c.name == clause_name)
        _limit_memory()

        def flush(sig, case, msg):
            _write_replay(prop_id, clause_name, sig, case, msg, partial=True)

        def claimed(sig):
            try:
                with open(_replay_path(prop_id, sig)) as f:
                    return json.load(f).get('run') == os.environ.get('VERIF_RUN_TOKEN')
            except Exception:
                return False

        if clause.kind == 'exhaustive':
            st = run_exhaustive_shard(clause, shard, nshards, set(known_open), tier, flush)
        else:
            st = run_random_shard(clause, n_examples,
                                  derive_seed(seed_value, prop_id, clause_name, shard),
                                  set(known_open), tier, flush, claimed)
        return ('ok', clause_name, st.to_payload())
    except BaseException as e:  # noqa: BLE001 - report everything to the parent as harness error
        return ('error', clause_name, ''.join(traceback.format_exception(type(e), e, e.__traceback__)))


def _limit_memory():
    try:
        import resource
        lim = int(os.environ.get('VERIF_WORKER_AS_GB', '6')) * (1 << 30)
        resource.setrlimit(resource.RLIMIT_AS, (lim, lim))
    except Exception:
        pass


def load_property(prop_id: str):
    import importlib
    return importlib.import_module(f'mtv.props.{prop_id.lower()}')


# ---------------------------------------------------------------------------------------------
# replays / findings

def _sig_slug(sig: str) -> str:
    return ''.join(ch if ch.isalnum() else '-' for ch in sig)[:60]


def _replay_path(prop_id, sig) -> str:
    d = os.path.join(env.VERIF_DIR, 'replays')
    os.makedirs(d, exist_ok=True)
    h = hashlib.sha1(sig.encode()).hexdigest()[:8]
    return os.path.join(d, f'{prop_id}-{_sig_slug(sig)}-{h}.json')


def _write_replay(prop_id, clause_name, sig, case, msg, partial=False):
    p = _replay_path(prop_id, sig)
    tmp = f'{p}.{os.getpid()}.tmp'
    with open(tmp, 'w') as f:
        json.dump({'property': prop_id, 'clause': clause_name, 'signature': sig,
                   'message': msg, 'case': case}, f, indent=1, sort_keys=True, default=str)
    # keep the smallest case across processes
    try:
        if os.path.exists(p):
            with open(p) as f:
                old = json.load(f)
            if old.get('signature') == sig and len(canon(old['case'])) <= len(canon(case)) \
                    and old.get('run') == os.environ.get('VERIF_RUN_TOKEN'):
                os.unlink(tmp)
                return p
    except Exception:
        pass
    with open(tmp) as f:
        d = json.load(f)
    d['run'] = os.environ.get('VERIF_RUN_TOKEN')
    with open(tmp, 'w') as f:
        json.dump(d, f, indent=1, sort_keys=True, default=str)
    os.replace(tmp, p)
    return p


def load_known_findings(prop_id):
    p = os.path.join(env.VERIF_DIR, 'known_findings.json')
    if not os.path.exists(p):
        return []
    with open(p) as f:
        data = json.load(f)
    return [e for e in data.get('open', []) if e.get('property') == prop_id]


def replay_case(mod, clause_name, case) -> Outcome:
    clause = next((c for c in mod.CLAUSES if c.name == clause_name), None)
    if clause is None:
        raise HarnessError(f'unknown clause {clause_name}')
    return _safe_check(clause, case)


# ---------------------------------------------------------------------------------------------
# main entry

def run_property(prop_id: str, tier: str, seed_value: int) -> int:
    import multiprocessing as mp

    t0 = time.monotonic()
    os.environ['VERIF_RUN_TOKEN'] = f'{os.getpid()}-{time.time_ns()}'
    env.setup()
    mod = load_property(prop_id)

    violations = []      # (sig, replay path, msg)
    known_lines = []
    # 1. known findings: replay each recorded input
    known_open = set()
    for e in load_known_findings(prop_id):
        with open(os.path.join(env.VERIF_DIR, e['replay'])) as f:
            rec = json.load(f)
        out = replay_case(mod, rec['clause'], rec['case'])
        if any(s == e['signature'] for s, _ in out.discrepancies):
            known_open.add(e['signature'])
            known_lines.append(f"KNOWN-FINDING: property={prop_id} {e['what']}")
    # 2. regression corpus (plain replays, bypass hypothesis)
    reg_dir = os.path.join(env.VERIF_DIR, 'corpus', 'regressions', prop_id)
    n_reg = 0
    reg_samples = []
    reg_nt = set()
    if os.path.isdir(reg_dir) and not os.environ.get('VERIF_NO_REGRESSIONS'):   # (switch used by the mutation audit only)
        for fn in sorted(os.listdir(reg_dir)):
            if not fn.endswith('.json'):
                continue
            with open(os.path.join(reg_dir, fn)) as f:
                rec = json.load(f)
            out = replay_case(mod, rec['clause'], rec['case'])
            n_reg += 1
            if out.nontrivial:
                reg_nt.add(case_hash(rec['case']))
            for s, m in out.discrepancies:
                if s in known_open:
                    continue
                p = _write_replay(prop_id, rec['clause'], s, rec['case'], m)
                violations.append((s, p, m))
            if len(reg_samples) < 1:
                reg_samples.append({'clause': rec['clause'], 'case': rec['case']})

    # 3. generated search
    tasks = []
    only = [c for c in os.environ.get('VERIF_CLAUSES', '').split(',') if c]   # development aid
    for clause in mod.CLAUSES:
        if only and clause.name not in only:
            continue
        n = clause.budget.get(tier, clause.budget.get('quick', 0))
        nshards = max(1, min(clause.shards.get(tier, NPROC), NPROC))
        if clause.kind == 'exhaustive':
            for k in range(nshards):
                tasks.append((prop_id, clause.name, k, nshards, 0, seed_value, tier,
                              sorted(known_open)))
        else:
            if n <= 0:
                continue
            per = max(1, n // nshards)
            for k in range(nshards):
                tasks.append((prop_id, clause.name, k, nshards, per, seed_value, tier,
                              sorted(known_open)))

    merged = {}
    errors = []
    ctx = mp.get_context('fork')
    with ctx.Pool(min(NPROC, max(1, len(tasks))), maxtasksperchild=1) as pool:
        for status, cname, payload in pool.imap_unordered(_worker, tasks, chunksize=1):
            if status == 'error':
                errors.append((cname, payload))
                continue
            m = merged.setdefault(cname, {
                'evaluations': 0, 'nt': set(), 'classes': Counter(), 'samples_nt': [],
                'samples_triv': [], 'excluded_known': Counter(), 'found': {}, 'inconclusive': [],
                'exhaustive_sizes': {}})
            m['evaluations'] += payload['evaluations']
            m['nt'].update(payload['nontrivial_hashes'])
            m['classes'].update(payload['classes'])
            m['samples_nt'] += payload['samples_nt']
            m['samples_triv'] += payload['samples_triv']
            m['excluded_known'].update(payload['excluded_known'])
            m['inconclusive'] += payload['inconclusive']
            m['exhaustive_sizes'].update(payload['exhaustive_sizes'])
            for sig, rec in payload['found'].items():
                cur = m['found'].get(sig)
                if cur is None or rec['size'] < cur['size']:
                    m['found'][sig] = rec

    if errors:
        for cname, tb in errors[:3]:
            sys.stderr.write(f'HARNESS ERROR in clause {cname}:\n{tb}\n')
        return 2

    for cname, m in merged.items():
        for sig, rec in sorted(m['found'].items()):
            p = _write_replay(prop_id, cname, sig, rec['case'], rec['msg'])
            violations.append((sig, p, rec['msg']))
    # replays flushed by a shard of this run whose payload did not carry them (defensive)
    rdir = os.path.join(env.VERIF_DIR, 'replays')
    if os.path.isdir(rdir):
        have = {v[1] for v in violations}
        for fn in sorted(os.listdir(rdir)):
            fp = os.path.join(rdir, fn)
            if fn.startswith(prop_id + '-') and fn.endswith('.json') and fp not in have:
                try:
                    with open(fp) as f:
                        rec = json.load(f)
                    if rec.get('run') == os.environ['VERIF_RUN_TOKEN'] and rec.get('signature') not in known_open:
                        violations.append((rec['signature'], fp, rec.get('message', '')))
                except Exception:
                    pass

    # 4. evidence
    evaluations = n_reg + sum(m['evaluations'] for m in merged.values())
    nt_all = set(reg_nt)
    for m in merged.values():
        nt_all.update(m['nt'])
    def _sample(c):
        # very large cases (a shipped language specification) are abbreviated in the evidence file
        txt = canon(c)
        if len(txt) <= 30000:
            return c
        return {'abbreviated': True, 'size_chars': len(txt), 'sha1': case_hash(c), 'head': txt[:3000]}

    samples = []
    for cname, m in merged.items():
        for c in m['samples_nt'][:1]:
            samples.append({'clause': cname, 'nontrivial': True, 'case': _sample(c)})
    for cname, m in merged.items():
        for c in m['samples_triv'][:1]:
            if len(samples) < 6:
                samples.append({'clause': cname, 'nontrivial': False, 'case': _sample(c)})
    samples += [dict(s, case=_sample(s['case']), regression=True) for s in reg_samples]
    clauses_ev = {}
    exhaustive_all = bool(merged) and all(c.kind == 'exhaustive' for c in mod.CLAUSES)
    for clause in mod.CLAUSES:
        m = merged.get(clause.name)
        if not m:
            continue
        ev = m['evaluations']
        clauses_ev[clause.name] = {
            'kind': clause.kind,
            'evaluations': ev,
            'distinct_nontrivial': len(m['nt']),
            'class_histogram': {k: v for k, v in sorted(m['classes'].items())},
            'class_fractions': {k: round(v / ev, 4) for k, v in sorted(m['classes'].items())} if ev else {},
            'excluded_known': dict(m['excluded_known']),
            'inconclusive': m['inconclusive'],
        }
        if clause.kind == 'exhaustive':
            clauses_ev[clause.name]['exhaustive'] = True
            clauses_ev[clause.name]['space'] = clause.space
            clauses_ev[clause.name]['space_size'] = m['exhaustive_sizes'].get(clause.name)
    wall = time.monotonic() - t0
    evidence = {
        'property_id': prop_id,
        'tier': tier,
        'seed': seed_value,
        'level': 'exploration',
        'coverage': {
            'evaluations': evaluations,
            'distinct_nontrivial': len(nt_all),
            'rule': mod.RULE,
            'samples': samples,
            'exhaustive': exhaustive_all,
            'clauses': clauses_ev,
            'regressions_replayed': n_reg,
            'known_findings_reported': known_lines,
            'repo': env.REPO,
        },
        'assumptions': list(getattr(mod, 'ASSUMPTIONS', [])),
        'wall_s': round(wall, 2),
        'violations': len(violations),
    }
    ev_dir = os.path.join(env.VERIF_DIR, 'evidence')
    os.makedirs(ev_dir, exist_ok=True)
    with open(os.path.join(ev_dir, f'{prop_id}.json'), 'w') as f:
        json.dump(evidence, f, indent=1, default=str)

    for line in known_lines:
        print(line)
    seen = set()
    for sig, p, msg in violations:
        if sig in seen:
            continue
        seen.add(sig)
        print(f'VIOLATION property={prop_id} replay={p}')
        print(f'  signature={sig} :: {msg[:300]}')
    print(f'{prop_id} tier={tier} seed={seed_value}: {evaluations} cases, '
          f'{len(nt_all)} distinct non-trivial, {len(seen)} violation signature(s), {wall:.1f}s')
    return 1 if violations else 0


def run_replay(prop_id: str, path: str) -> int:
    env.setup()
    mod = load_property(prop_id)
    with open(path) as f:
        rec = json.load(f)
    out = replay_case(mod, rec['clause'], rec['case'])
    known = {e['signature'] for e in load_known_findings(prop_id)}
    bad = [(s, m) for s, m in out.discrepancies if s not in known]
    for s, m in out.discrepancies:
        print(f'  discrepancy signature={s} :: {m[:500]}')
    if bad:
        print(f'VIOLATION property={prop_id} replay={os.path.abspath(path)}')
        return 1
    print(f'{prop_id} replay {path}: no violation')
    return 0
