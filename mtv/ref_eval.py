"""Reference set-semantics evaluator for MAL step expressions over an abstract instance model.

The abstract model is the *case description*: assets = list of {'type': T, ...} addressed by index,
links = list of {'assoc': k, 'left': [asset idx], 'right': [asset idx]}.

Because the toolbox and the MAL documentation disagree on whether X* contains X, evaluation
returns an interval (lower, upper) of sets: closure+ and closure*, propagated through the other
operators (all monotone except difference, which yields (l1 - u2, u1 - l2)).
"""
from __future__ import annotations

from .ref_lang import Lang


class AbstractModel:
    def __init__(self, lang: Lang, asset_types: list, links: list):
        self.lang = lang
        self.types = list(asset_types)
        self.links = links
        self.events = set()   # interesting situations met while evaluating (class labels)
        # nav[(asset idx, field name)] -> set of asset idx
        self.nav = {}
        for ln in links:
            a = lang.assocs[ln['assoc']]
            for l in ln['left']:
                for r in ln['right']:
                    # l sits in leftField, r in rightField: from l through rightField one reaches r
                    self.nav.setdefault((l, a['rightField']), set()).add(r)
                    self.nav.setdefault((r, a['leftField']), set()).add(l)

    def step_field(self, sources: set, fieldname: str) -> set:
        out = set()
        for s in sources:
            out |= self.nav.get((s, fieldname), set())
        return out


def evaluate(am: AbstractModel, sources: frozenset, expr: dict, depth=0, per_source=True, tmode='interval'):
    """-> (lower, upper, step name or None)

    per_source=True is the compositional reading [[e1.e2]](x) = U_{y in [[e1]](x)} [[e2]](y);
    per_source=False evaluates the right operand of a dot once over the whole intermediate set.
    The two differ only when an intersection / difference stands to the right of a dot and the
    intermediate set has several elements.

    tmode: 'interval' propagates (closure+, closure*) as an interval - sound only for expressions that are
    monotone in the transitive result (no difference operator downstream); 'plus' / 'star' evaluate exactly
    under one reading of X* (then lower == upper).  exact_results() gives the four exact readings."""
    t = expr['type']
    if t == 'attackStep':
        return (set(sources), set(sources), expr['name'])
    if t == 'field':
        r = am.step_field(sources, expr['name'])
        return (set(r), set(r), None)
    if t == 'collect':
        l1, u1, _ = evaluate(am, sources, expr['lhs'], depth + 1, per_source, tmode)
        if per_source and _has_setop(am.lang, expr['rhs']):
            lo, up, name = set(), set(), _step_name(expr['rhs'])
            for y in u1:
                l, u, _ = evaluate(am, frozenset([y]), expr['rhs'], depth + 1, per_source, tmode)
                up |= u
                if y in l1:
                    lo |= l
            return (lo, up, name)
        lo, _, n1 = evaluate(am, frozenset(l1), expr['rhs'], depth + 1, per_source, tmode)
        _, up, n2 = evaluate(am, frozenset(u1), expr['rhs'], depth + 1, per_source, tmode)
        return (lo, up, n1 if n1 is not None else n2)
    if t in ('union', 'intersection', 'difference'):
        l1, u1, _ = evaluate(am, sources, expr['lhs'], depth + 1, per_source, tmode)
        l2, u2, _ = evaluate(am, sources, expr['rhs'], depth + 1, per_source, tmode)
        ev = am.events
        if not u1:
            ev.add('setop:lhs-empty')
        if not u2:
            ev.add('setop:rhs-empty')
        if u1 & u2:
            ev.add('setop:shared')
        if len(u1) > 1 or len(u2) > 1:
            ev.add('setop:multi')
        if len(sources) > 1:
            ev.add('setop:multi-source')
        ev.add('op:' + t)
        if t == 'union':
            return (l1 | l2, u1 | u2, None)
        if t == 'intersection':
            return (l1 & l2, u1 & u2, None)
        return (l1 - u2, u1 - l2, None)
    if t == 'subType':
        l, u, _ = evaluate(am, sources, expr['stepExpression'], depth + 1, per_source, tmode)
        keep = lambda s: {x for x in s if am.lang.is_sub(am.types[x], expr['subType'])}
        am.events.add('op:subType')
        if keep(u) != u:
            am.events.add('subType:filters')
        return (keep(l), keep(u), None)
    if t == 'variable':
        am.events.add('op:variable')
        # all sources share the variable through their common ancestor (no shadowing), but be
        # precise anyway: resolve per source type
        lo, up = set(), set()
        if not per_source and sources:
            exprs = []
            for s in sorted(sources):
                ve = am.lang.variable(am.types[s], expr['name'])
                if ve is None:
                    raise KeyError(f'variable {expr["name"]} not visible on {am.types[s]}')
                if ve not in exprs:
                    exprs.append(ve)
            if len(exprs) == 1:
                l, u, _ = evaluate(am, sources, exprs[0], depth + 1, per_source, tmode)
                return (l, u, None)
        for s in sources:
            ve = am.lang.variable(am.types[s], expr['name'])
            if ve is None:
                raise KeyError(f'variable {expr["name"]} not visible on {am.types[s]}')
            l, u, _ = evaluate(am, frozenset([s]), ve, depth + 1, per_source, tmode)
            lo |= l
            up |= u
        return (lo, up, None)
    if t == 'transitive':
        inner = expr['stepExpression']

        def closure(start: set, pick: int) -> set:
            seen = set()
            frontier = set(start)
            while frontier:
                if per_source:
                    res = set()
                    for y in frontier:
                        res |= evaluate(am, frozenset([y]), inner, depth + 1, per_source, tmode)[pick]
                else:
                    res = evaluate(am, frozenset(frontier), inner, depth + 1, per_source, tmode)[pick]
                frontier = res - seen
                seen |= frontier
            return seen
        plus_lower = closure(set(sources), 0)
        star_upper = closure(set(sources), 1) | set(sources)
        if tmode == 'plus':          # exact: one or more applications
            star_upper = set(plus_lower)
        elif tmode == 'star':        # exact: zero or more applications
            plus_lower = set(star_upper)
        am.events.add('op:transitive')
        if plus_lower & set(sources):
            am.events.add('transitive:cycle')
        if len(plus_lower) > 1:
            am.events.add('transitive:multi')
        return (plus_lower, star_upper, None)
    raise ValueError(f'unknown expression type {t}')


def _step_name(e):
    while isinstance(e, dict):
        if e['type'] == 'attackStep':
            return e['name']
        if e['type'] == 'collect':
            e = e['rhs']
        else:
            return None
    return None


def _has_setop(lang: Lang, e, seen=None) -> bool:
    """does e (variables expanded over all types) contain an intersection or difference?"""
    seen = set() if seen is None else seen
    if not isinstance(e, dict):
        return False
    if e['type'] in ('intersection', 'difference'):
        return True
    if e['type'] == 'variable':
        if e['name'] in seen:
            return False
        seen.add(e['name'])
        return any(_has_setop(lang, v['stepExpression'], seen)
                   for a in lang.spec['assets'] for v in a['variables'] if v['name'] == e['name'])
    return any(_has_setop(lang, e[k], seen) for k in ('lhs', 'rhs', 'stepExpression') if k in e)


def uses_transitive(lang: Lang, t: str, expr: dict) -> bool:
    """does the expression (with variables expanded from type t's point of view, conservatively
    over all types) involve the transitive operator?"""
    seen = set()

    def walk(e):
        if not isinstance(e, dict):
            return False
        if e['type'] == 'transitive':
            return True
        if e['type'] == 'variable':
            if e['name'] in seen:
                return False
            seen.add(e['name'])
            for a in lang.spec['assets']:
                for v in a['variables']:
                    if v['name'] == e['name'] and walk(v['stepExpression']):
                        return True
            return False
        return any(walk(e[k]) for k in ('lhs', 'rhs', 'stepExpression') if k in e)
    return walk(expr)


def has_difference(lang: Lang, e, seen=None) -> bool:
    """does e (variables expanded over all types) contain a difference operator?"""
    seen = set() if seen is None else seen
    if not isinstance(e, dict):
        return False
    if e['type'] == 'difference':
        return True
    if e['type'] == 'variable':
        if e['name'] in seen:
            return False
        seen.add(e['name'])
        return any(has_difference(lang, v['stepExpression'], seen)
                   for a in lang.spec['assets'] for v in a['variables'] if v['name'] == e['name'])
    return any(has_difference(lang, e[k], seen) for k in ('lhs', 'rhs', 'stepExpression') if k in e)


def exact_results(am: AbstractModel, sources: frozenset, expr: dict):
    """the result under each combination of (compositional | whole-set) x (X* = closure+ | closure*)"""
    out = []
    for ps in (True, False):
        for tm in ('plus', 'star'):
            l, u, n = evaluate(am, sources, expr, 0, ps, tm)
            out.append((l, n))
    return out


def acceptable(am: AbstractModel, sources: frozenset, expr: dict, got: set) -> bool:
    """is `got` the result of expr under one of the accepted readings?  For expressions without a difference
    operator everything between closure+ and closure* is accepted as well (the stated bounds)."""
    if any(got == r for r, _ in exact_results(am, sources, expr)):
        return True
    if not has_difference(am.lang, expr):
        for ps in (True, False):
            l, u, _ = evaluate(am, sources, expr, 0, ps, 'interval')
            if l <= got <= u:
                return True
    return False
