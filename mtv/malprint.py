"""P_mal: prints a language specification (langspec dict) as MAL source text with minimal
parenthesisation, and distributes declarations over included files.

Harness code - a printer bug would be a false alarm, so the printer is anchored on coreLang:
compile(print(coreLang spec)) must equal the langspec.json that malc put into the shipped .mar.
"""
from __future__ import annotations

SETOPS = {'union': '\\/', 'intersection': '/\\', 'difference': '-'}
TTCOPS = {'addition': ('+', 1), 'subtraction': ('-', 1), 'multiplication': ('*', 2), 'division': ('/', 2),
          'exponentiation': ('^', 3)}
STEPTYPES = {'or': '|', 'and': '&', 'defense': '#', 'exist': 'E', 'notExist': '!E'}


# ---- step expressions ---------------------------------------------------------------------------------

def expr(e) -> str:
    """expr: parts (setop parts)*   (left-associative)"""
    t = e['type']
    if t in SETOPS:
        rhs = e['rhs']
        r = f'({expr(rhs)})' if rhs['type'] in SETOPS else parts(rhs)
        return f'{expr(e["lhs"])} {SETOPS[t]} {r}'
    return parts(e)


def parts(e) -> str:
    """parts: part (DOT part)*   (left-associative)"""
    if e['type'] == 'collect':
        rhs = e['rhs']
        r = f'({expr(rhs)})' if rhs['type'] == 'collect' or rhs['type'] in SETOPS else part(rhs)
        return f'{parts(e["lhs"])}.{r}'
    if e['type'] in SETOPS:
        return f'({expr(e)})'
    return part(e)


def part(e) -> str:
    """part: (LPAREN expr RPAREN | varsubst LPAREN RPAREN | ID) STAR? type*"""
    t = e['type']
    if t in ('field', 'attackStep'):
        return e['name']
    if t == 'variable':
        return f'{e["name"]}()'
    if t == 'transitive':
        return core(e['stepExpression']) + '*'
    if t == 'subType':
        inner = e['stepExpression']
        if inner['type'] in ('field', 'attackStep', 'variable', 'transitive', 'subType'):
            return f'{part(inner)}[{e["subType"]}]'
        return f'({expr(inner)})[{e["subType"]}]'
    return f'({expr(e)})'


def core(e) -> str:
    """the part before STAR: an ID, a variable call or a parenthesised expression"""
    if e['type'] in ('field', 'attackStep'):
        return e['name']
    if e['type'] == 'variable':
        return f'{e["name"]}()'
    return f'({expr(e)})'


# ---- TTC expressions ----------------------------------------------------------------------------------

def number(v) -> str:
    f = float(v)
    if f == int(f) and abs(f) < 1e15:
        return repr(f)          # '1.0'
    return repr(f)


def ttc(e, opts=None) -> str:
    return _ttc(e, 0, opts or {})


def _ttc(e, min_prec, opts) -> str:
    t = e['type']
    if t == 'function':
        if e['arguments']:
            return f'{e["name"]}({", ".join(number(a) for a in e["arguments"])})'
        return e['name'] + ('()' if opts.get('dist_parens') else '')
    if t == 'number':
        return number(e['value'])
    sym, prec = TTCOPS[t]
    if prec == 3:
        # ttcfact: ttcatom (POWER ttcatom)?   - both operands are atoms
        s = f'{_ttc(e["lhs"], 4, opts)} {sym} {_ttc(e["rhs"], 4, opts)}'
    else:
        # left-associative chains: the right operand needs a strictly higher precedence
        s = f'{_ttc(e["lhs"], prec, opts)} {sym} {_ttc(e["rhs"], prec + 1, opts)}'
    return f'({s})' if prec < min_prec else s


# ---- declarations -------------------------------------------------------------------------------------

def _meta(meta, ind) -> str:
    return ''.join(f'\n{ind}{k} info: "{v}"' for k, v in meta.items())


def mult(m, form=0) -> str:
    lo, hi = m['min'], m['max']
    if hi is None:
        if lo == 0:
            return ['*', '0..*'][form % 2]
        return f'{lo}..*'
    if lo == hi:
        return [f'{lo}', f'{lo}..{hi}'][form % 2]
    return f'{lo}..{hi}'


def step(s, ind, opts) -> str:
    out = f'{ind}{STEPTYPES[s["type"]]} {s["name"]}'
    for t in s['tags']:
        out += f' @{t}'
    if s['risk']:
        cia = [c for c, k in (('C', 'isConfidentiality'), ('I', 'isIntegrity'), ('A', 'isAvailability')) if s['risk'][k]]
        out += ' {' + ', '.join(cia) + '}'
    if s['ttc'] is not None:
        out += f' [{ttc(s["ttc"], opts)}]'
    out += _meta(s['meta'], ind + '  ')
    if s['requires'] and s['requires']['stepExpressions']:
        out += f'\n{ind}  <- ' + (',\n' + ind + '     ').join(expr(e) for e in s['requires']['stepExpressions'])
    if s['reaches']:
        arrow = '->' if s['reaches']['overrides'] else '+>'
        out += f'\n{ind}  {arrow} ' + (',\n' + ind + '     ').join(expr(e) for e in s['reaches']['stepExpressions'])
    return out


def asset(a, ind, opts) -> str:
    out = ind + ('abstract ' if a['isAbstract'] else '') + f'asset {a["name"]}'
    if a['superAsset']:
        out += f' extends {a["superAsset"]}'
    out += _meta(a['meta'], ind + '  ')
    out += ' {\n' if not a['meta'] else f'\n{ind}{{\n'
    body = []
    # variables and steps may be interleaved freely in the grammar; keep spec order per kind
    for v in a['variables']:
        body.append(f'{ind}  let {v["name"]} = {expr(v["stepExpression"])}')
    for s in a['attackSteps']:
        body.append(step(s, ind + '  ', opts))
    return out + '\n'.join(body) + f'\n{ind}}}'


def association(a, ind, form=0) -> str:
    return (f'{ind}{a["leftAsset"]} [{a["leftField"]}] {mult(a["leftMultiplicity"], form)} <-- {a["name"]} --> '
            f'{mult(a["rightMultiplicity"], form >> 1)} [{a["rightField"]}] {a["rightAsset"]}' + _meta(a['meta'], ind + '  '))


def declarations(spec, opts=None) -> list:
    """top-level declarations as a list of text blocks, in an order that reproduces the
    specification's list orders when concatenated"""
    opts = opts or {}
    blocks = []
    for k, v in spec['defines'].items():
        blocks.append(f'#{k}: "{v}"')
    cat = {c['name']: c for c in spec['categories']}
    for c in spec['categories']:
        blocks.append(f'category {c["name"]}' + _meta(c['meta'], '  ') + (' {' if not c['meta'] else '\n{') + '\n}')
    run = []
    runs = []
    for a in spec['assets']:
        if run and run[-1]['category'] != a['category']:
            runs.append(run)
            run = []
        run.append(a)
    if run:
        runs.append(run)
    for r in runs:
        c = cat[r[0]['category']]
        head = f'category {c["name"]}' + _meta(c['meta'], '  ') + (' {' if not c['meta'] else '\n{')
        blocks.append(head + '\n' + '\n\n'.join(asset(a, '  ', opts) for a in r) + '\n}')
    if spec['associations']:
        per = max(1, opts.get('assocs_per_block', 1000))
        forms = opts.get('mult_forms', [0])
        for i in range(0, len(spec['associations']), per):
            chunk = spec['associations'][i:i + per]
            blocks.append('associations {\n' + '\n'.join(
                association(a, '  ', forms[(i + j) % len(forms)]) for j, a in enumerate(chunk)) + '\n}')
    return blocks


def decorate(block, opts, k=0) -> str:
    """layout noise: comments and blank lines (never inside strings: only between blocks)"""
    pre = ''
    if opts.get('comments'):
        pre = ['// generated\n', '/* block\n   comment */\n', '\n\n', ''][k % 4]
    return pre + block


def single_file(spec, opts=None) -> str:
    opts = opts or {}
    return '\n\n'.join(decorate(b, opts, k) for k, b in enumerate(declarations(spec, opts))) + '\n'


def write_layout(spec, directory, layout=None, opts=None, root='main.mal') -> str:
    """layout: list with one file index per declaration block (0 = root); includes[i] = list of
    extra (repeated) includes.  Writes the files, returns the root path.
    An included file is referenced where its first block stood; file j may be included from any
    file i < j (nesting) as chosen by layout['parent']."""
    import os
    opts = opts or {}
    blocks = declarations(spec, opts)
    layout = layout or {}
    assign = layout.get('assign', [])
    assign = [(assign[i] if i < len(assign) else 0) for i in range(len(blocks))]
    nfiles = max(assign, default=0) + 1
    parent = layout.get('parent', [])
    content = {i: [] for i in range(nfiles)}
    seen = set()
    for k, b in enumerate(blocks):
        f = assign[k]
        if f != 0 and f not in seen:
            seen.add(f)
            p = parent[f] if f < len(parent) and parent[f] < f else 0
            if p != 0 and p not in seen:
                p = 0
            content[p].append(f'include "inc{f}.mal"')
        content[f].append(decorate(b, opts, k))
    for f in layout.get('repeat', []):
        if 0 < f < nfiles and f in seen:
            content[0].append(f'include "inc{f}.mal"')
    for f in range(nfiles):
        name = root if f == 0 else f'inc{f}.mal'
        text = '\n\n'.join(content[f]) + '\n'
        if not content[f]:
            text = '// empty\n'
        with open(os.path.join(directory, name), 'w', encoding='utf-8') as fh:
            fh.write(text)
    return os.path.join(directory, root)
