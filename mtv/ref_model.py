"""Abstract reference model of maltoolbox.model.Model (C05/C06/C07).

Pure data; imports nothing from maltoolbox.  Handles are creation indexes.  The reference decides
for every operation whether it must be accepted or must raise, and the next abstract state.
It does not prescribe how a duplicate name is made unique nor which id is assigned automatically:
those are read back from the implementation and only checked for uniqueness.
"""
from __future__ import annotations

from .ref_lang import Lang


class RefModel:
    def __init__(self, lang: Lang):
        self.L = lang
        self.assets = {}      # handle -> {'id', 'name', 'type', 'live'}
        self.assocs = {}      # handle -> {'k', 'left': [asset handles], 'right': [...], 'live'}
        self.attackers = {}   # handle -> {'id', 'name', 'eps': [[asset handle, [steps]]], 'live'}

    # ---- queries ----------------------------------------------------------------------------
    def live_assets(self):
        return [h for h, a in self.assets.items() if a['live']]

    def live_assocs(self):
        return [h for h, a in self.assocs.items() if a['live']]

    def live_attackers(self):
        return [h for h, a in self.attackers.items() if a['live']]

    def live_ids(self):
        return {self.assets[h]['id'] for h in self.live_assets()}

    def live_names(self):
        return {self.assets[h]['name'] for h in self.live_assets()}

    def class_of(self, k, spec):
        from .modelgen import assoc_class_name
        return assoc_class_name(spec, k)

    def pairs(self, spec, cls, exclude=None):
        out = set()
        for h in self.live_assocs():
            a = self.assocs[h]
            if h == exclude or self.class_of(a['k'], spec) != cls:
                continue
            for l in a['left']:
                for r in a['right']:
                    out.add((l, r))
        return out

    def neighbours(self, x, fieldname):
        out = set()
        for h in self.live_assocs():
            a = self.assocs[h]
            d = self.L.assocs[a['k']]
            if x in a['left'] and d['rightField'] == fieldname:
                out |= set(a['right'])
            if x in a['right'] and d['leftField'] == fieldname:
                out |= set(a['left'])
        return out

    def assocs_of(self, x):
        return {h for h in self.live_assocs() if x in self.assocs[h]['left'] or x in self.assocs[h]['right']}

    # ---- verdicts ---------------------------------------------------------------------------
    def verdict_add_asset(self, requested_name, requested_id, allow_dup):
        """-> None if the call must be accepted, else a reason why it must raise"""
        if requested_id is not None and requested_id in self.live_ids():
            return 'id-in-use'
        if requested_name is not None and requested_name in self.live_names() and not allow_dup:
            return 'duplicate-name-not-allowed'
        return None

    def verdict_add_assoc(self, spec, k, left, right, same_object_live=False):
        d = self.L.assocs[k]
        if same_object_live:
            return 'same-association-object'
        if len(set(left)) < len(left) or len(set(right)) < len(right):
            return 'repeated-member'
        for side, members, typ, mult in (('left', left, d['leftAsset'], d['leftMultiplicity']),
                                         ('right', right, d['rightAsset'], d['rightMultiplicity'])):
            for m in members:
                if not self.L.is_sub(self.assets[m]['type'], typ):
                    return 'member-type'
            if mult['max'] is not None and len(members) > mult['max']:
                return 'max-multiplicity'
        cls = self.class_of(k, spec)
        existing = self.pairs(spec, cls)
        for l in left:
            for r in right:
                if (l, r) in existing:
                    return 'duplicate-link'
        return None

    # ---- transitions --------------------------------------------------------------------------
    def add_asset(self, handle, typ, name, aid):
        self.assets[handle] = {'id': aid, 'name': name, 'type': typ, 'live': True}

    def remove_assoc(self, h):
        self.assocs[h]['live'] = False

    def remove_from_assoc(self, x, h):
        a = self.assocs[h]
        a['left'] = [m for m in a['left'] if m != x]
        a['right'] = [m for m in a['right'] if m != x]
        if not a['left'] or not a['right']:
            a['live'] = False

    def remove_asset(self, x):
        for h in sorted(self.assocs_of(x)):
            self.remove_from_assoc(x, h)
        for att in self.attackers.values():
            att['eps'] = [ep for ep in att['eps'] if ep[0] != x]
        self.assets[x]['live'] = False
