"""Child process of the C16 check: builds the attack graph for every case of a batch file in a
fresh interpreter (with the PYTHONHASHSEED given by the parent) and prints one digest per case."""
import hashlib
import json
import sys


def digest_of(spec, mdesc):
    from mtv.modelgen import build_language, build_model
    from maltoolbox.attackgraph import AttackGraph
    from maltoolbox.attackgraph.analyzers.apriori import calculate_viability_and_necessity
    lg, cf = build_language(spec)
    model, objs = build_model(cf, spec, mdesc)
    g = AttackGraph(lg, model)
    g.attach_attackers()
    calculate_viability_and_necessity(g)
    d = g._to_dict()
    return hashlib.sha256(json.dumps(d, sort_keys=True, default=str).encode()).hexdigest()


def main():
    from mtv import env
    env.setup()
    with open(sys.argv[1]) as f:
        batch = json.load(f)
    out = []
    for c in batch:
        try:
            out.append(digest_of(c['spec'], c['model']))
        except BaseException as e:  # noqa: BLE001
            out.append(f'error:{type(e).__name__}')
    print('DIGESTS ' + json.dumps(out))


if __name__ == '__main__':
    main()
