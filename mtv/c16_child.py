"""Child process of the C16 check: builds the attack graph for every case of a batch file in a
fresh interpreter (with the PYTHONHASHSEED given by the parent) and prints one digest per case."""
import hashlib
import json
import sys


def digest_of(spec, mdesc):
    from mtv.modelgen import build_language, build_model
    from maltoolbox.attackgraph import AttackGraph
    from maltoolbox.attackgraph.analyzers.apriori import calculate_viability_and_necessity
    lg, cf = build_language(spec)
    model, objs = build_model(cf, spec, mdesc)
    g = AttackGraph(lg, model)
    g.attach_attackers()
    calculate_viability_and_necessity(g)
    d = g._to_dict()
    return hashlib.sha256(json.dumps(d, sort_keys=True, default=str).encode()).hexdigest()


def wrapper_digests(spec, mdesc, workdir):
    """the graph through create_attack_graph from a .mar and from the printed .mal (model file: json)"""
    import os
    import zipfile
    from mtv import malprint
    from mtv.modelgen import build_language, build_model
    from maltoolbox.wrappers import create_attack_graph
    lg, cf = build_language(spec)
    model, objs = build_model(cf, spec, mdesc)
    mpath = os.path.join(workdir, 'model.json')
    model.save_to_file(mpath)
    mar = os.path.join(workdir, 'lang.mar')
    with zipfile.ZipFile(mar, 'w') as z:
        z.writestr('langspec.json', json.dumps(spec))
    for f in os.listdir(workdir):
        if f.endswith('.mal'):
            os.unlink(os.path.join(workdir, f))
    mal = malprint.write_layout(spec, workdir, None, {})
    out = []
    for lang_file in (mar, mal):
        g = create_attack_graph(lang_file, mpath)
        out.append(hashlib.sha256(json.dumps(g._to_dict(), sort_keys=True, default=str).encode()).hexdigest())
    return out


def main():
    from mtv import env
    env.setup()
    with open(sys.argv[1]) as f:
        batch = json.load(f)
    import os
    workdir = os.path.join(os.getcwd(), 'wrapper-files')
    os.makedirs(workdir, exist_ok=True)
    out = []
    for c in batch:
        try:
            d = [digest_of(c['spec'], c['model'])]
        except BaseException as e:  # noqa: BLE001
            out.append([f'error:{type(e).__name__}'])
            continue
        try:
            d += wrapper_digests(c['spec'], c['model'], workdir)
        except BaseException as e:  # noqa: BLE001
            d += [f'error:{type(e).__name__}'] * 2
        out.append(d)
    print('DIGESTS ' + json.dumps(out))


if __name__ == '__main__':
    main()
