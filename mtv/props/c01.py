"""C01 - attack-graph edges are exactly the MAL meaning of the step expressions."""
from __future__ import annotations

import itertools

from ..driver import Clause, Outcome
from ..langgen import lang_classes
from ..modelgen import lang_and_model, build_language, build_model, corelang_models, shipped_spec
from ..ref_eval import AbstractModel, evaluate, exact_results, acceptable, has_difference
from ..ref_lang import Lang, expr_ops
from .. import tinylang

PROPERTY = 'C01'
RULE = ('random: G_lang x G_model (and G_model over the shipped coreLang) (typed language generator, instance-model generator with shared, '
        'many-to-many, cyclic and self links); exhaustive: set operators over all pairs of subsets of '
        '3 assets, transitive closure over all 2^9 link relations on 3 assets, subtype filter over all '
        'type assignments. Oracle: independent set-semantics evaluator over the case description; '
        'children compared as sets of (asset, step), closure+ <= result <= closure* for transitive; '
        'parents must be the converse of children; clause edited-models generates a graph, edits the model through the API (remove association / member / asset) and checks the graph generated afterwards against the edited description. A case is non-trivial when a reaches expression with a '
        'set operator / subtype filter / transitive step / variable is evaluated on an empty operand, a '
        'shared element, several sources or a cycle/self-link (events recorded by the reference '
        'evaluator); distinctness by hash of the canonical case description.')
ASSUMPTIONS = [
    'well-formedness of generated languages is by construction from the MAL rules (malc is not available offline)',
    'for an intersection/difference to the right of a dot over several intermediate assets both the '
    'compositional (per-source) and the whole-set reading are accepted',
    'python_jsonschema_objects validation is trusted',
]


class BudgetExceeded(Exception):
    pass


class _Guard:
    """Wraps the module-level evaluator with a deterministic work budget (no wall clock).

    The budget applies per top-level evaluation of one step expression: a terminating evaluator needs at
    most about size(expr) * (n+1)^2 calls (the subtype case re-evaluates its operand once per target), and
    check_case() skips cases whose legitimate intermediate lists could exceed MAX_LEGIT_LIST (the toolbox
    keeps duplicates in intermediate lists, so dense models and long chains are legitimately expensive)."""

    def __init__(self, n_assets, expr_nodes=200):
        self.max_calls = 64 * (expr_nodes + 8) * (n_assets + 1) ** 2
        self.max_list = MAX_LEGIT_LIST + 1
        # the evaluator recurses along the expression tree (variables expanded): generated expressions are
        # less than 50 levels deep, a recursion 200 deep is one that follows the model instead
        self.max_depth = 200
        self.calls = 0
        self.depth = 0

    def __enter__(self):
        import maltoolbox.attackgraph.attackgraph as agm
        self.agm = agm
        self.orig = getattr(agm, '_process_step_expression', None)
        if self.orig is None:
            return self
        guard = self
        orig = self.orig

        def wrapped(lang_graph, model, target_assets, step_expression):
            if guard.depth == 0:
                guard.calls = 0
            guard.calls += 1
            if guard.calls > guard.max_calls or len(target_assets) > guard.max_list or guard.depth > guard.max_depth:
                raise BudgetExceeded()
            guard.depth += 1
            try:
                return orig(lang_graph, model, target_assets, step_expression)
            finally:
                guard.depth -= 1
        agm._process_step_expression = wrapped
        return self

    def __exit__(self, *a):
        if self.orig is not None:
            self.agm._process_step_expression = self.orig
        return False


MAX_LEGIT_LIST = 1000


def cost_bound(L, nav_fanout, n_assets, expr, s=1, depth=0):
    """upper bound on the length of the intermediate lists an evaluator that keeps duplicates builds"""
    t = expr['type']
    if depth > 40 or s > 10 ** 9:
        return 10 ** 9
    if t == 'attackStep':
        return s
    if t == 'field':
        return s * max(1, nav_fanout.get(expr['name'], 0))
    if t == 'collect':
        return cost_bound(L, nav_fanout, n_assets, expr['rhs'], cost_bound(L, nav_fanout, n_assets, expr['lhs'], s, depth + 1), depth + 1)
    if t in ('union', 'intersection', 'difference'):
        return cost_bound(L, nav_fanout, n_assets, expr['lhs'], s, depth + 1) + cost_bound(L, nav_fanout, n_assets, expr['rhs'], s, depth + 1)
    if t == 'subType':
        return max(1, s) * cost_bound(L, nav_fanout, n_assets, expr['stepExpression'], s, depth + 1)
    if t == 'transitive':
        return max(n_assets, cost_bound(L, nav_fanout, n_assets, expr['stepExpression'], max(s, n_assets), depth + 1))
    if t == 'variable':
        worst = s
        for a in L.spec['assets']:
            for v in a['variables']:
                if v['name'] == expr['name']:
                    worst = max(worst, cost_bound(L, nav_fanout, n_assets, v['stepExpression'], s, depth + 1))
        return worst
    return s


def too_expensive(L, mdesc):
    """True when a legitimate (duplicate-keeping) evaluation of some expression of the language over this
    model could build lists longer than MAX_LEGIT_LIST - such cases are skipped, never judged"""
    fan = {}
    per = {}
    for ln in mdesc['links']:
        a = L.assocs[ln['assoc']]
        for l in ln['left']:
            per[(l, a['rightField'])] = per.get((l, a['rightField']), 0) + len(ln['right'])
        for r in ln['right']:
            per[(r, a['leftField'])] = per.get((r, a['leftField']), 0) + len(ln['left'])
    for (x, f), c in per.items():
        fan[f] = max(fan.get(f, 0), c)
    n = len(mdesc['assets'])
    for a in L.spec['assets']:
        for st_ in a['attackSteps']:
            for key in ('reaches', 'requires'):
                for e in (st_[key]['stepExpressions'] if st_.get(key) else []):
                    if cost_bound(L, fan, n, e) > MAX_LEGIT_LIST:
                        return True
    return False


def _names(objs):
    return [str(o.name) for o in objs]


def generate_graph(spec, mdesc):
    """-> (lg, model, objs, graph, error signature or None, message)"""
    from maltoolbox.attackgraph import AttackGraph
    if too_expensive(Lang(spec), mdesc):
        return None, None, None, None, 'skipped-too-expensive', ''
    try:
        lg, cf = build_language(spec)
    except Exception as e:  # a well-formed language must load
        return None, None, None, None, 'language-rejected', f'{type(e).__name__}: {e}'
    try:
        model, objs = build_model(cf, spec, mdesc)
    except Exception as e:
        return lg, None, None, None, 'model-rejected', f'{type(e).__name__}: {e}'
    try:
        with _Guard(len(objs)):
            g = AttackGraph(lg, model)
    except (BudgetExceeded, RecursionError, MemoryError) as e:
        return lg, model, objs, None, 'generation-does-not-terminate', type(e).__name__
    except Exception as e:
        return lg, model, objs, None, 'generation-raises', f'{type(e).__name__}: {e}'
    return lg, model, objs, g, None, ''


def _within(got, iv):
    return iv[0] <= got <= iv[1]


def _expand_ops(L, e, seen=None):
    seen = set() if seen is None else seen
    ops = set(expr_ops(e))
    if 'variable' in ops:
        def walk(x):
            if isinstance(x, dict):
                if x['type'] == 'variable' and x['name'] not in seen:
                    seen.add(x['name'])
                    for a in L.spec['assets']:
                        for v in a['variables']:
                            if v['name'] == x['name']:
                                ops.update(_expand_ops(L, v['stepExpression'], seen))
                for k in ('lhs', 'rhs', 'stepExpression'):
                    if k in x:
                        walk(x[k])
        walk(e)
    return ops


def _localize(lg, model, objs, am, e, S):
    """Find the innermost sub-expression on which the toolbox's evaluator, fed the reference's
    input set, disagrees with the reference.  -> signature fragment or None"""
    import maltoolbox.attackgraph.attackgraph as agm
    ev = getattr(agm, '_process_step_expression', None)
    if ev is None:
        return None
    t = e['type']
    if t == 'attackStep':
        return None
    sub = []
    if t == 'collect':
        sub.append((e['lhs'], S))
        l, u, _ = evaluate(am, frozenset(S), e['lhs'])
        if l == u:
            sub.append((e['rhs'], l))
    elif t in ('union', 'intersection', 'difference'):
        sub += [(e['lhs'], S), (e['rhs'], S)]
    elif t in ('subType', 'transitive'):
        sub.append((e['stepExpression'], S))
    elif t == 'variable':
        for s in sorted(S):
            ve = am.lang.variable(am.types[s], e['name'])
            if ve is not None:
                sub.append((ve, {s}))
    for se, sS in sub:
        r = _localize(lg, model, objs, am, se, set(sS))
        if r:
            return r
    try:
        with _Guard(len(objs)):
            got, _ = ev(lg, model, [objs[i] for i in sorted(S)], e)
        idx = {id(o): i for i, o in enumerate(objs)}
        gs = {idx[id(o)] for o in got}
    except (BudgetExceeded, RecursionError, MemoryError):
        return f'op={t}:nontermination'
    except Exception as ex:
        return f'op={t}:raises-{type(ex).__name__}'
    if acceptable(am, frozenset(S), e, gs):
        return None
    q = ''
    if t in ('union', 'intersection', 'difference'):
        _, u1, _ = evaluate(am, frozenset(S), e['lhs'])
        _, u2, _ = evaluate(am, frozenset(S), e['rhs'])
        q = ':lhs-empty' if not u1 else (':rhs-empty' if not u2 else (':shared' if u1 & u2 else ':disjoint'))
    elif t == 'transitive':
        q = ':inner=' + e['stepExpression']['type']
    elif t == 'field':
        q = ':sources>1' if len(S) > 1 else ''
    return f'op={t}{q}'


def check_case(case) -> Outcome:
    out = Outcome()
    spec, mdesc = case['spec'], case['model']
    L = Lang(spec)
    out.classes += lang_classes(spec)
    am = AbstractModel(L, [a['type'] for a in mdesc['assets']], mdesc['links'])
    lg, model, objs, g, err, msg = generate_graph(spec, mdesc)
    if err == 'skipped-too-expensive':
        out.classes.append(err)
        return out
    # reference
    names = None
    expected = {}      # (asset idx, step) -> (ps interval, ws interval) of sets of (asset idx, step)
    interesting = False
    for i, a in enumerate(mdesc['assets']):
        for sname, sdef in L.fold(a['type']).items():
            lo_ps, up_ps, lo_ws, up_ws = set(), set(), set(), set()
            cands = [set(), set(), set(), set()]
            nodiff = True
            for e in (sdef['reaches']['stepExpressions'] if sdef['reaches'] else []):
                for k, (res, nm) in enumerate(exact_results(am, frozenset([i]), e)):
                    cands[k] |= {(x, nm) for x in res}
                nodiff = nodiff and not has_difference(L, e)
                ops = _expand_ops(L, e)
                before = set(am.events)
                am.events.clear()
                l, u, n = evaluate(am, frozenset([i]), e, per_source=True)
                l2, u2, _ = evaluate(am, frozenset([i]), e, per_source=False)
                evs = set(am.events)
                am.events.update(before)
                if ops - {'collect', 'field', 'attackStep'} and \
                        evs & {'setop:lhs-empty', 'setop:rhs-empty', 'setop:shared', 'setop:multi',
                               'setop:multi-source', 'transitive:cycle', 'transitive:multi',
                               'subType:filters'}:
                    interesting = True
                if (l, u) != (l2, u2):
                    out.classes.append('reading-dependent')
                lo_ps |= {(x, n) for x in l}
                up_ps |= {(x, n) for x in u}
                lo_ws |= {(x, n) for x in l2}
                up_ws |= {(x, n) for x in u2}
            # accepted: the exact result under one consistent reading (compositional | whole-set) x (X* =
            # closure+ | closure*), or - when no difference operator is involved, so that everything is monotone
            # in the transitive result - anything between the closure+ and the closure* result
            expected[(i, sname)] = ((lo_ps, up_ps), (lo_ws, up_ws), cands, nodiff)
    out.classes += sorted(am.events)
    if any(set(ln['left']) & set(ln['right']) for ln in mdesc['links']):
        out.classes.append('model:self-link')
    out.nontrivial = interesting
    if err:
        sig = err
        if err in ('generation-does-not-terminate', 'generation-raises') and lg is not None and objs:
            # localise
            for (i, sname), _ in expected.items():
                sdef = L.fold(mdesc['assets'][i]['type'])[sname]
                for e in (sdef['reaches']['stepExpressions'] if sdef['reaches'] else []):
                    r = _localize(lg, model, objs, am, e, {i})
                    if r:
                        sig = f'{err}:{r}'
                        break
                else:
                    continue
                break
        out.add(sig, msg)
        return out
    # observed
    names = _names(objs)
    name_to_idx = {}
    for i, n in enumerate(names):
        name_to_idx.setdefault(n, i)
    node_of = {}
    for n in g.nodes:
        node_of[n.full_name] = n
    for (i, sname), (ps, ws, cands, nodiff) in expected.items():
        fn = f'{names[i]}:{sname}'
        node = g.get_node_by_full_name(fn)
        if node is None:
            out.add('node-missing', f'no node {fn}')
            continue
        got = set()
        bad = False
        for c in node.children:
            an = str(c.asset.name) if c.asset is not None else None
            if an not in name_to_idx:
                bad = True
                continue
            got.add((name_to_idx[an], c.name))
        if bad or not (any(got == c for c in cands) or (nodiff and (_within(got, ps) or _within(got, ws)))):
            sdef = L.fold(mdesc['assets'][i]['type'])[sname]
            frag = None
            for e in (sdef['reaches']['stepExpressions'] if sdef['reaches'] else []):
                frag = _localize(lg, model, objs, am, e, {i})
                if frag:
                    break
            out.add('children:' + (frag or 'edges'),
                    f'{fn}: children {sorted(got)} not among the accepted readings {[sorted(c) for c in cands]}'[:600])
    # converse
    ch = set()
    pa = set()
    for n in g.nodes:
        for c in n.children:
            ch.add((n.full_name, c.full_name))
        for p in n.parents:
            pa.add((p.full_name, n.full_name))
    if ch != pa:
        out.add('parents-not-converse', f'children-only {sorted(ch - pa)[:4]} parents-only {sorted(pa - ch)[:4]}')
    return out


# ---------------------------------------------------------------------------------------------
# exhaustive sub-spaces

def _enum_setops(tier):
    """A --b1--> B, A --b2--> B; x -> (b1 op b2).y and nested forms; all pairs of subsets of 3 B's"""
    subsets = [list(c) for r in range(4) for c in itertools.combinations([1, 2, 3], r)]
    for spec_name, spec in tinylang.setop_languages():
        for s1 in subsets:
            for s2 in subsets:
                links = []
                for b in s1:
                    links.append({'assoc': 0, 'left': [0], 'right': [b]})
                for b in s2:
                    links.append({'assoc': 1, 'left': [0], 'right': [b]})
                yield {'spec': spec, 'model': {
                    'assets': [{'type': 'Host', 'name': 'a', 'id': None, 'defenses': {}}] +
                              [{'type': 'Data', 'name': f'b{i}', 'id': None, 'defenses': {}} for i in (1, 2, 3)],
                    'links': links, 'attackers': []}}


def _enum_transitive(tier):
    """Host --nxt--> Host self association, t -> nxt*.t ; all 2^9 link relations on 3 assets"""
    pairs = [(i, j) for i in range(3) for j in range(3)]
    for spec_name, spec in tinylang.transitive_languages():
        for mask in range(1 << 9):
            links = [{'assoc': 0, 'left': [i], 'right': [j]} for b, (i, j) in enumerate(pairs) if mask >> b & 1]
            yield {'spec': spec, 'model': {
                'assets': [{'type': 'Host', 'name': f'h{i}', 'id': None, 'defenses': {}} for i in range(3)],
                'links': links, 'attackers': []}}


def _enum_subtype(tier):
    """three-level chain Host <- Net <- User; x -> items[T].x for every T; all type assignments of
    three linked assets"""
    for spec_name, spec in tinylang.subtype_languages():
        for types in itertools.product(['Host', 'Net', 'User'], repeat=3):
            for mask in range(1, 8):
                links = [{'assoc': 0, 'left': [0], 'right': [j + 1]} for j in range(3) if mask >> j & 1]
                yield {'spec': spec, 'model': {
                    'assets': [{'type': 'App', 'name': 'src', 'id': None, 'defenses': {}}] +
                              [{'type': t, 'name': f't{j}', 'id': None, 'defenses': {}} for j, t in enumerate(types)],
                    'links': links, 'attackers': []}}


def check_edited(case) -> Outcome:
    """generate, edit the model through the API, generate again: the second graph must be the graph of the
    edited model (a neighbour cache that is not invalidated would be exposed)"""
    from maltoolbox.attackgraph import AttackGraph
    out = Outcome()
    spec, mdesc = case['spec'], case['model']
    lg, model, objs, g, err, msg = generate_graph(spec, mdesc)
    if err:
        out.classes.append('skipped:' + err)
        return out
    # apply the edits to the live model and to the description
    links = [dict(ln, left=list(ln['left']), right=list(ln['right'])) for ln in mdesc['links']]
    assoc_objs = list(model.associations)
    alive = [True] * len(links)
    removed_assets = set()
    try:
        for kind, a, b in case['edits']:
            live_links = [k for k in range(len(links)) if alive[k]]
            if kind == 'remove_link' and live_links:
                k = live_links[a % len(live_links)]
                model.remove_association(assoc_objs[k])
                alive[k] = False
            elif kind == 'remove_member' and live_links:
                k = live_links[a % len(live_links)]
                members = links[k]['left'] + links[k]['right']
                x = members[b % len(members)]
                model.remove_asset_from_association(objs[x], assoc_objs[k])
                links[k]['left'] = [m for m in links[k]['left'] if m != x]
                links[k]['right'] = [m for m in links[k]['right'] if m != x]
                if not links[k]['left'] or not links[k]['right']:
                    alive[k] = False
            elif kind == 'remove_asset' and len(removed_assets) < len(objs) - 1:
                cands = [i for i in range(len(objs)) if i not in removed_assets]
                x = cands[a % len(cands)]
                model.remove_asset(objs[x])
                removed_assets.add(x)
                for k in live_links:
                    links[k]['left'] = [m for m in links[k]['left'] if m != x]
                    links[k]['right'] = [m for m in links[k]['right'] if m != x]
                    if not links[k]['left'] or not links[k]['right']:
                        alive[k] = False
    except Exception as e:
        out.classes.append('skipped:edit-raises:' + type(e).__name__)   # C05 reports problems of the edits
        return out
    # the edited model as a description (asset indexes re-mapped)
    keep = [i for i in range(len(objs)) if i not in removed_assets]
    remap = {old: new for new, old in enumerate(keep)}
    m2 = {'assets': [mdesc['assets'][i] for i in keep], 'attackers': [],
          'links': [{'assoc': links[k]['assoc'], 'left': [remap[x] for x in links[k]['left']],
                     'right': [remap[x] for x in links[k]['right']]} for k in range(len(links)) if alive[k]]}
    L = Lang(spec)
    am = AbstractModel(L, [a['type'] for a in m2['assets']], m2['links'])
    try:
        with _Guard(len(objs)):
            g2 = AttackGraph(lg, model)
    except (BudgetExceeded, RecursionError, MemoryError) as e:
        out.add('edited:generation-does-not-terminate', type(e).__name__)
        return out
    except Exception as e:
        out.add('edited:generation-raises', f'{type(e).__name__}: {e}')
        return out
    names = [str(objs[i].name) for i in keep]
    idx = {n: k for k, n in enumerate(names)}
    for k, a in enumerate(m2['assets']):
        for sname, sdef in L.fold(a['type']).items():
            node = g2.get_node_by_full_name(f'{names[k]}:{sname}')
            if node is None:
                out.add('edited:node-missing', f'{names[k]}:{sname}')
                continue
            got = {(idx.get(str(c.asset.name)), c.name) for c in node.children}
            cands = [set(), set(), set(), set()]
            for e in (sdef['reaches']['stepExpressions'] if sdef['reaches'] else []):
                for r, (res, nm) in enumerate(exact_results(am, frozenset([k]), e)):
                    cands[r] |= {(x, nm) for x in res}
            if not any(got == c for c in cands):
                ok = False
                if not any(has_difference(L, e) for e in (sdef['reaches']['stepExpressions'] if sdef['reaches'] else [])):
                    lo, up = set(), set()
                    for e in sdef['reaches']['stepExpressions']:
                        l, u, nm = evaluate(am, frozenset([k]), e)
                        lo |= {(x, nm) for x in l}
                        up |= {(x, nm) for x in u}
                    ok = lo <= got <= up
                if not ok:
                    out.add('edited:children-differ', f'{names[k]}:{sname}: {sorted(got, key=str)} not among {[sorted(c) for c in cands]}'[:500])
    out.nontrivial = bool(case['edits']) and bool(mdesc['links'])
    out.classes += sorted({'edit:' + e[0] for e in case['edits']})
    return out


def _edited_cases():
    from hypothesis import strategies as st

    @st.composite
    def cases(draw):
        c = draw(lang_and_model({'max_assets': 4, 'max_expr_depth': 2},
                                {'max_assets': 5, 'attackers': False, 'defenses': False, 'min_assets': 2}))
        small = st.integers(0, 9)
        c['edits'] = draw(st.lists(st.tuples(st.sampled_from(['remove_link', 'remove_member', 'remove_member', 'remove_asset']),
                                             small, small).map(list), min_size=1, max_size=3))
        return c
    return cases()


def check_corelang(case) -> Outcome:
    spec = shipped_spec()
    if spec is None:
        return Outcome()
    return check_case({'spec': spec, 'model': case['model']})


CLAUSES = [
    Clause('setops-exhaustive', check_case, kind='exhaustive', enumerate=_enum_setops,
           space='all pairs of subsets of 3 assets as operands of union/intersection/difference and nested forms'),
    Clause('transitive-exhaustive', check_case, kind='exhaustive', enumerate=_enum_transitive, memory_is_violation=True,
           space='all 2^9 link relations of a self-association on 3 assets under the transitive operator'),
    Clause('subtype-exhaustive', check_case, kind='exhaustive', enumerate=_enum_subtype,
           space='all type assignments (3-level chain) x non-empty link subsets for the subtype filter'),
    Clause('random', check_case, kind='random',
           strategy=lambda: lang_and_model({'max_assets': 5, 'max_expr_depth': 3},
                                           {'max_assets': 6, 'attackers': False, 'defenses': False}),
           budget={'quick': 8000, 'thorough': 150000}, memory_is_violation=True),
    Clause('edited-models', check_edited, kind='random', strategy=lambda: _edited_cases(),
           budget={'quick': 1600, 'thorough': 48000}),
    Clause('corelang-models', check_corelang, kind='random',
           strategy=lambda: corelang_models(max_assets=7, attackers=False, defenses=False).map(lambda m: {'model': m}),
           budget={'quick': 640, 'thorough': 24000}),
]
