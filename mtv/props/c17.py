"""C17 - malformed MAL source is rejected, never half-compiled."""
from __future__ import annotations

import json
import os

from hypothesis import strategies as st

from ..driver import Clause, Outcome
from ..env import worker_tmp
from ..langgen import languages
from .. import malprint

PROPERTY = 'C17'
RULE = ('valid MAL texts (printed G_lang programs, the printed coreLang, optionally split over included files) '
        'damaged by token-level mutations chosen by Hypothesis: delete / insert (from the vocabulary) / duplicate '
        '/ swap neighbours / truncate at a token boundary / replace an identifier by a reserved word / unbalance '
        'a bracket, applied to the root file or to a file it includes. Oracle: the grammar itself - the harness '
        'lexes and parses the root and every transitively included file with the shipped malLexer / malParser '
        'and a counting error listener on both; if the count is > 0 the text is malformed by definition and '
        'MalCompiler().compile / LanguageGraph.from_mal_spec must raise; a still-grammatical mutant asserts '
        'nothing. Non-trivial: listener count > 0 and at least one complete declaration precedes the damage '
        '(a half-compiled result would be non-empty).')
ASSUMPTIONS = ['text the parser stops reading without reporting an error (the top rule is not anchored at EOF) is '
               'outside the stated quantifier and not asserted',
               'the shipped generated lexer / parser are the definition of the grammar']

VOCAB = ['{', '}', '(', ')', '[', ']', ',', '.', '->', '+>', '<-', '|', '&', '#', '*', '\\/', '/\\', '-', 'asset',
         'category', 'let', '=', 'info', ':', '"x"', 'foo', '1', '..', '<--', '-->', 'E', '!E', 'extends', 'abstract',
         'associations', '@', '+', '/', '^', 'include', 'C', 'I', 'A', '0.5']
RESERVED = ['asset', 'category', 'let', 'info', 'extends', 'abstract', 'associations', 'include', 'E', 'C', 'I', 'A']


def _tokens(text):
    from antlr4 import InputStream
    from maltoolbox.language.compiler.mal_lexer import malLexer
    lx = malLexer(InputStream(text))
    lx.removeErrorListeners()
    out = []
    for t in lx.getAllTokens():
        out.append((t.type, t.text))
    return out


def count_errors(path, seen=None):
    """number of syntax errors reported by the shipped lexer / parser for the file and everything it
    includes (flat, relative to the root directory like the compiler)"""
    from antlr4 import FileStream, CommonTokenStream
    from antlr4.error.ErrorListener import ErrorListener
    from maltoolbox.language.compiler.mal_lexer import malLexer
    from maltoolbox.language.compiler.mal_parser import malParser
    seen = seen if seen is not None else set()
    if path in seen or not os.path.exists(path):
        return 0
    seen.add(path)

    class Counter(ErrorListener):
        n = 0

        def syntaxError(self, recognizer, offendingSymbol, line, column, msg, e):
            Counter.n += 1
    Counter.n = 0
    lexer = malLexer(FileStream(path, encoding='utf-8'))
    lexer.removeErrorListeners()
    lexer.addErrorListener(Counter())
    stream = CommonTokenStream(lexer)
    parser = malParser(stream)
    parser.removeErrorListeners()
    parser.addErrorListener(Counter())
    tree = parser.mal()
    n = Counter.n
    # includes
    root = os.path.dirname(path)
    for d in tree.declaration():
        inc = d.include()
        if inc is not None and inc.STRING() is not None:
            name = inc.STRING().getText().strip('"')
            n += count_errors(os.path.join(root, os.path.basename(name)), seen)
    return n


def mutate(tokens, m):
    """tokens: [(type, text)], m = [kind, position, extra] -> new token text list, position"""
    from maltoolbox.language.compiler.mal_parser import malParser
    toks = [t for _, t in tokens]
    if not toks:
        return toks, 0
    kind, pos, extra = m
    pos = pos % len(toks)
    if kind == 'delete':
        del toks[pos]
    elif kind == 'insert':
        toks.insert(pos, VOCAB[extra % len(VOCAB)])
    elif kind == 'duplicate':
        toks.insert(pos, toks[pos])
    elif kind == 'swap':
        if pos + 1 < len(toks):
            toks[pos], toks[pos + 1] = toks[pos + 1], toks[pos]
    elif kind == 'truncate':
        toks = toks[:max(pos, 1)]
    elif kind == 'reserved':
        ids = [i for i, (ty, _) in enumerate(tokens) if ty == malParser.ID]
        if ids:
            pos = ids[pos % len(ids)]
            toks[pos] = RESERVED[extra % len(RESERVED)]
    elif kind == 'bracket':
        br = [i for i, t in enumerate(toks) if t in '{}()[]']
        if br:
            pos = br[pos % len(br)]
            del toks[pos]
    return toks, pos


def check_case(case) -> Outcome:
    from maltoolbox.language.compiler import MalCompiler
    out = Outcome()
    d = worker_tmp('c17')
    for fn in os.listdir(d):
        os.unlink(os.path.join(d, fn))
    if case.get('corelang'):
        spec = _corelang()
        if spec is None:
            return out
    else:
        spec = case['spec']
    root = malprint.write_layout(spec, d, case.get('layout'), {})
    files = sorted(os.listdir(d))
    target = files[case['file'] % len(files)]
    path = os.path.join(d, target)
    with open(path, encoding='utf-8') as f:
        text = f.read()
    toks = _tokens(text)
    if not toks:
        return out
    if count_errors(root) != 0:
        raise RuntimeError('harness: the unmutated program is not grammatical')
    new, pos = mutate(toks, case['mutation'])
    with open(path, 'w', encoding='utf-8') as f:
        f.write(' '.join(new) + '\n')
    out.classes.append('mutation:' + case['mutation'][0])
    out.classes.append('in-included-file' if target != 'main.mal' else 'in-root-file')
    errors = count_errors(root)
    if errors == 0:
        out.classes.append('still-grammatical')
        return out
    # a complete declaration before the damage?
    depth, complete = 0, False
    for i, (_, t) in enumerate(toks[:pos]):
        if t == '{':
            depth += 1
        elif t == '}':
            depth -= 1
            if depth == 0:
                complete = True
    out.nontrivial = complete or target != 'main.mal'
    try:
        res = MalCompiler().compile(root)
    except Exception:
        return out
    n = sum(len(res.get(k, [])) for k in ('categories', 'assets', 'associations')) if isinstance(res, dict) else -1
    out.add('malformed-source-compiled', f'{errors} syntax error(s) after {case["mutation"]} in {target}; '
            f'compile returned a specification with {n} top-level entries')
    return out


_CORE = {}


def _corelang():
    import zipfile
    from ..env import REPO
    if 'spec' not in _CORE:
        p = os.path.join(REPO, 'tests', 'testdata', 'org.mal-lang.coreLang-1.0.0.mar')
        _CORE['spec'] = None
        if os.path.exists(p):
            with zipfile.ZipFile(p) as z:
                _CORE['spec'] = json.loads(z.read('langspec.json'))
    return _CORE['spec']


def _mutations():
    return st.tuples(st.sampled_from(['delete', 'insert', 'duplicate', 'swap', 'truncate', 'reserved', 'bracket',
                                      'delete', 'insert']),
                     st.integers(0, 4000), st.integers(0, 100)).map(list)


@st.composite
def cases(draw):
    spec = draw(languages(max_assets=4, max_expr_depth=2))
    nb = 2 + len(spec['categories']) + len(spec['assets']) + len(spec['associations']) + 2
    layout = None
    if draw(st.booleans()):
        k = draw(st.integers(1, 2))
        layout = {'assign': draw(st.lists(st.integers(0, k), min_size=nb, max_size=nb)),
                  'parent': draw(st.lists(st.integers(0, k), min_size=k + 1, max_size=k + 1)), 'repeat': []}
    return {'spec': spec, 'layout': layout, 'file': draw(st.integers(0, 3)), 'mutation': draw(_mutations())}


@st.composite
def corelang_cases(draw):
    return {'corelang': True, 'layout': {'assign': [0, 0, 0, 1, 2, 1, 0, 2] * 5, 'parent': [0, 0, 1], 'repeat': []},
            'file': draw(st.integers(0, 2)), 'mutation': draw(_mutations())}


CLAUSES = [
    Clause('generated-programs', check_case, kind='random', strategy=cases, budget={'quick': 6000, 'thorough': 180000}),
    Clause('corelang', check_case, kind='random', strategy=corelang_cases, budget={'quick': 100, 'thorough': 4500},
           shards={'quick': 8, 'thorough': 48}),
]
