"""C15 - language graph mirrors the language and over-approximates every attack graph."""
from __future__ import annotations

import copy

from hypothesis import strategies as st

from ..driver import Clause, Outcome
from ..langgen import languages, lang_classes
from ..modelgen import models
from ..ref_lang import Lang, expr_ops
from .c01 import generate_graph

PROPERTY = 'C15'
RULE = ('G_lang languages (+ the two coreLang variants shipped with the repository) checked against an independent '
        'recomputation from the specification: asset set, super/sub links, subtype relation = reflexive-transitive '
        'closure for ALL pairs (is_subasset_of, get_all_subassets, get_all_superassets), associations per asset '
        '(own and inherited), get_association_by_fields_and_assets for EVERY (field pair, type pair) in both '
        'orientations, children/parents mirroring of every step link, one link per reaches expression; ill-formed '
        'variants obtained by one mutation (unknown super asset; association with unknown left / right / both '
        'ends; reaches expression with unknown field, step, subtype, variable; set operation between unrelated '
        'types) must raise; over-approximation: every edge of an attack graph generated for a G_model model is '
        'predicted by a language-graph link to a step owned by the target type or an ancestor. Non-trivial: '
        'inheritance depth >=2 with an association declared on an ancestor, and either a set operator over two '
        'different static types or an ill-formed mutation.')
ASSUMPTIONS = ['where several associations match a lookup any of them is accepted',
               'only reaches expressions are mutated for the error clause (variables / requirements are not typed by the language graph unless used)']

MUTATIONS = ['super', 'assoc-left', 'assoc-right', 'assoc-both', 'field', 'step', 'subtype', 'variable', 'setop']


def _reach_sites(spec):
    """[(asset idx, step idx, expr idx)] of all reaches expressions"""
    out = []
    for i, a in enumerate(spec['assets']):
        for j, s in enumerate(a['attackSteps']):
            if s['reaches']:
                for k, _ in enumerate(s['reaches']['stepExpressions']):
                    out.append((i, j, k))
    return out


def _mutate(spec, kind, sel):
    """-> mutated copy or None if not applicable"""
    s = copy.deepcopy(spec)
    L = Lang(spec)
    if kind == 'super':
        a = s['assets'][sel % len(s['assets'])]
        a['superAsset'] = 'NoSuchAsset'
        return s
    if kind.startswith('assoc'):
        if not s['associations']:
            return None
        a = s['associations'][sel % len(s['associations'])]
        if kind in ('assoc-left', 'assoc-both'):
            a['leftAsset'] = 'NoSuchAssetL'
        if kind in ('assoc-right', 'assoc-both'):
            a['rightAsset'] = 'NoSuchAssetR'
        # keep the rest of the language well-formed: drop every expression (they may use the fields)
        for x in s['assets']:
            x['variables'] = []
            for st_ in x['attackSteps']:
                st_['reaches'] = None
                if st_['requires']:
                    st_['requires'] = {'overrides': True, 'stepExpressions': []}
        return s
    sites = _reach_sites(s)
    if not sites:
        return None
    i, j, k = sites[sel % len(sites)]
    e = s['assets'][i]['attackSteps'][j]['reaches']['stepExpressions'][k]

    def first(e, typ):
        if not isinstance(e, dict):
            return None
        if e['type'] == typ:
            return e
        for key in ('lhs', 'rhs', 'stepExpression'):
            if key in e:
                r = first(e[key], typ)
                if r is not None:
                    return r
        return None
    if kind == 'field':
        n = first(e, 'field')
        if n is None:
            return None
        n['name'] = 'noSuchField'
        return s
    if kind == 'step':
        n = first(e, 'attackStep')
        n['name'] = 'noSuchStep'
        return s
    if kind == 'subtype':
        n = first(e, 'subType')
        if n is None:
            return None
        n['subType'] = 'NoSuchAsset'
        return s
    if kind == 'variable':
        n = first(e, 'field')
        if n is None:
            return None
        n['type'] = 'variable'
        n['name'] = 'noSuchVariable'
        return s
    if kind == 'setop':
        # a union of two fields of the step's own type whose targets live in different trees
        T = s['assets'][i]['name']
        f = L.fields(T)
        names = sorted(f)
        for a in names:
            for b in names:
                if L.lca(f[a][0][2], f[b][0][2]) is None:
                    tgt_steps = [x for x in L.step_names(f[a][0][2])]
                    if not tgt_steps:
                        continue
                    s['assets'][i]['attackSteps'][j]['reaches']['stepExpressions'][k] = {
                        'type': 'collect',
                        'lhs': {'type': 'union', 'lhs': {'type': 'field', 'name': a}, 'rhs': {'type': 'field', 'name': b}},
                        'rhs': {'type': 'attackStep', 'name': tgt_steps[0]}}
                    return s
        return None
    return None


def check_language(spec, out, L=None):
    """mirror clauses on a well-formed language -> lang graph or None"""
    from maltoolbox.language import LanguageGraph
    L = L or Lang(spec)
    try:
        lg = LanguageGraph(copy.deepcopy(spec))
    except Exception as e:
        out.add('wellformed-language-rejected', f'{type(e).__name__}: {e}')
        return None
    byname = {}
    for a in lg.assets:
        if a.name in byname:
            out.add('asset-listed-twice', a.name)
        byname[a.name] = a
    if set(byname) != set(L.order):
        out.add('asset-set-differs', f'{sorted(byname)} != {sorted(L.order)}')
        return lg
    for t in L.order:
        a = byname[t]
        if lg.get_asset_by_name(t) is not a:
            out.add('get_asset_by_name', t)
        if sorted(x.name for x in a.super_assets) != ([L.parent[t]] if L.parent[t] else []):
            out.add('super-links-differ', t)
        if sorted(x.name for x in a.sub_assets) != sorted(L.children(t)):
            out.add('sub-links-differ', t)
        if bool(a.is_abstract) != bool(L.assets[t]['isAbstract']):
            out.add('abstractness-differs', t)
        if {x.name for x in a.get_all_subassets()} != set(L.descendants(t)):
            out.add('get_all_subassets', f'{t}: {[x.name for x in a.get_all_subassets()]}')
        if {x.name for x in a.get_all_superassets()} != set(L.chain(t)):
            out.add('get_all_superassets', f'{t}: {[x.name for x in a.get_all_superassets()]}')
        for u in L.order:
            if bool(a.is_subasset_of(byname[u])) != L.is_sub(t, u):
                out.add('is_subasset_of', f'{t} <= {u}: {a.is_subasset_of(byname[u])}')
        exp = sorted((L.assocs[k]['name'], L.assocs[k]['leftField'], L.assocs[k]['rightField']) for k in L.assocs_of(t))
        got = sorted((x.name, x.left_field.fieldname, x.right_field.fieldname) for x in a.associations)
        if got != exp:
            out.add('associations-of-asset-differ', f'{t}: {got} != {exp}')
    exp_all = sorted(((a['name'], a['leftAsset'], a['leftField'], a['leftMultiplicity']['min'], a['leftMultiplicity']['max'],
                      a['rightAsset'], a['rightField'], a['rightMultiplicity']['min'], a['rightMultiplicity']['max'])
                     for a in L.assocs), key=repr)
    got_all = sorted(((x.name, x.left_field.asset.name, x.left_field.fieldname, x.left_field.minimum, x.left_field.maximum,
                      x.right_field.asset.name, x.right_field.fieldname, x.right_field.minimum, x.right_field.maximum)
                     for x in lg.associations), key=repr)
    if got_all != exp_all:
        out.add('association-list-differs', f'{got_all} != {exp_all}'[:500])
    # association lookup, every field pair x type pair, both orientations
    fields = sorted({a['leftField'] for a in L.assocs} | {a['rightField'] for a in L.assocs}) + ['noSuchField']

    def matches(a, f1, f2, t1, t2):
        return (a['leftField'] == f1 and a['rightField'] == f2 and L.is_sub(t1, a['leftAsset']) and L.is_sub(t2, a['rightAsset'])) or \
               (a['leftField'] == f2 and a['rightField'] == f1 and L.is_sub(t2, a['leftAsset']) and L.is_sub(t1, a['rightAsset']))
    if len(fields) <= 13:
        for f1 in fields:
            for f2 in fields:
                for t1 in L.order:
                    for t2 in L.order:
                        exists = any(matches(a, f1, f2, t1, t2) for a in L.assocs)
                        try:
                            r = lg.get_association_by_fields_and_assets(f1, f2, t1, t2)
                        except Exception as e:
                            out.add('association-lookup-raises', f'{type(e).__name__}: {e}')
                            return lg
                        if exists and r is None:
                            out.add('association-lookup-misses', f'({f1},{f2},{t1},{t2})')
                            return lg
                        if not exists and r is not None:
                            out.add('association-lookup-invents', f'({f1},{f2},{t1},{t2}) -> {r.name}')
                            return lg
                        if r is not None:
                            d = {'leftField': r.left_field.fieldname, 'rightField': r.right_field.fieldname,
                                 'leftAsset': r.left_field.asset.name, 'rightAsset': r.right_field.asset.name}
                            if not matches(d, f1, f2, t1, t2):
                                out.add('association-lookup-wrong', f'({f1},{f2},{t1},{t2}) -> {d}')
                                return lg
    # steps and links
    steps = {}
    for s in lg.attack_steps:
        steps[(s.asset.name, s.name)] = s
    for t in L.order:
        fold = L.fold(t)
        got_names = sorted(s.name for s in byname[t].attack_steps)
        if got_names != sorted(fold):
            out.add('steps-of-asset-differ', f'{t}: {got_names} != {sorted(fold)}')
            continue
        for n, sdef in fold.items():
            s = steps.get((t, n))
            if s is None:
                out.add('step-missing', f'{t}.{n}')
                continue
            if s.type != sdef['type'] or s.ttc != sdef['ttc']:
                out.add('step-attributes-differ', f'{t}.{n}')
            exprs = sdef['reaches']['stepExpressions'] if sdef['reaches'] else []
            from ..ref_eval import _step_name
            exp_targets = sorted(_step_name(e) for e in exprs)
            got_targets = sorted(tgt.name for lst in s.children.values() for (tgt, _) in lst)
            if exp_targets != got_targets:
                out.add('links-per-expression-differ', f'{t}.{n}: {got_targets} != {exp_targets}')
    for s in lg.attack_steps:
        for cn, lst in s.children.items():
            for tgt, _ in lst:
                back = sum(1 for (p, _) in tgt.parents.get(s.name, []) if p is s)
                fwd = sum(1 for (x, _) in lst if x is tgt)
                if back != fwd:
                    out.add('link-not-mirrored-in-parents', f'{s.qualified_name} -> {tgt.qualified_name}')
                if not any(tgt is x for x in lg.attack_steps):
                    out.add('link-target-not-in-graph', tgt.qualified_name)
        for pn, lst in s.parents.items():
            for src, _ in lst:
                if sum(1 for (x, _) in src.children.get(s.name, []) if x is s) != sum(1 for (x, _) in lst if x is src):
                    out.add('link-not-mirrored-in-children', f'{src.qualified_name} -> {s.qualified_name}')
    return lg


def _shape(L, spec):
    anc_assoc = any(L.is_sub(t, a[side]) and t != a[side] for t in L.order for a in L.assocs for side in ('leftAsset', 'rightAsset'))
    return anc_assoc and any(len(L.chain(t)) >= 2 for t in L.order)


def _setop_two_types(L, spec):
    from ..langgen import _Gen  # noqa: F401  (typing is re-derived below, not taken from the generator)

    def styp(T, e):
        t = e['type']
        if t == 'field':
            f = L.fields(T).get(e['name'])
            return f[0][2] if f else None
        if t == 'collect':
            m = styp(T, e['lhs'])
            return styp(m, e['rhs']) if m else None
        if t in ('union', 'intersection', 'difference'):
            a, b = styp(T, e['lhs']), styp(T, e['rhs'])
            if a and b and a != b:
                found.append(1)
            return L.lca(a, b) if a and b else None
        if t == 'subType':
            styp(T, e['stepExpression'])
            return e['subType']
        if t == 'transitive':
            styp(T, e['stepExpression'])
            return T
        if t == 'variable':
            v = L.variable(T, e['name'])
            return styp(T, v) if v else None
        if t == 'attackStep':
            return T
        return None
    found = []
    for a in spec['assets']:
        for s in a['attackSteps']:
            if s['reaches']:
                for e in s['reaches']['stepExpressions']:
                    styp(a['name'], e)
    return bool(found)


def check_case(case) -> Outcome:
    out = Outcome()
    spec = case['spec']
    L = Lang(spec)
    out.classes += [c for c in lang_classes(spec) if c in ('lang:setop', 'lang:depth>=3', 'lang:dup-assoc-name')]
    shape = _shape(L, spec)
    two = _setop_two_types(L, spec)
    mut = case.get('mutation')
    if mut:
        from maltoolbox.language import LanguageGraph
        kind = MUTATIONS[mut[0] % len(MUTATIONS)]
        bad = _mutate(spec, kind, mut[1])
        if bad is None:
            out.classes.append('mutation-not-applicable')
            return out
        out.classes.append('ill-formed:' + kind)
        out.nontrivial = shape
        try:
            LanguageGraph(bad)
            out.add('ill-formed-language-accepted:' + kind, '')
        except Exception:
            pass
        return out
    lg = check_language(spec, out, L)
    out.nontrivial = shape and two
    if two:
        out.classes.append('setop-over-two-static-types')
    if lg is None or out.discrepancies:
        return out
    # over-approximation
    steps = {}
    for s in lg.attack_steps:
        steps[(s.asset.name, s.name)] = s
    for mdesc in case.get('models', []):
        lg2, model, objs, g, err, msg = generate_graph(spec, mdesc)
        if err:
            out.classes.append('skipped-model:' + err)
            continue
        for n in g.nodes:
            src = steps.get((str(n.asset.type), n.name))
            if src is None:
                out.add('over-approx:source-step-missing', n.full_name)
                continue
            # all link targets of the step, whatever the children mapping is keyed by
            targets = [tgt for lst in src.children.values() for (tgt, _) in lst]
            for c in n.children:
                ok = any(tgt.name == c.name and tgt.asset.name in L.chain(str(c.asset.type)) for tgt in targets)
                if not ok:
                    out.add('over-approx:edge-not-predicted',
                            f'{n.full_name} ({n.asset.type}) -> {c.full_name} ({c.asset.type}); language graph has '
                            f'{[t.qualified_name for t in targets if t.name == c.name]}')
                    break
    return out


@st.composite
def wellformed_cases(draw):
    spec = draw(languages(max_assets=5, max_expr_depth=2, deep_chains=draw(st.booleans())))
    ms = [draw(models(spec, max_assets=5, attackers=False, defenses=False)) for _ in range(2)]
    return {'spec': spec, 'models': ms}


@st.composite
def illformed_cases(draw):
    spec = draw(languages(max_assets=5, max_expr_depth=2))
    return {'spec': spec, 'mutation': [draw(st.integers(0, len(MUTATIONS) - 1)), draw(st.integers(0, 30))]}


def _corelang_cases(tier):
    import json
    import os
    import zipfile
    from ..env import REPO
    for fn in ('org.mal-lang.coreLang-1.0.0.mar', 'corelang-union-common-ancestor.mar'):
        p = os.path.join(REPO, 'tests', 'testdata', fn)
        if os.path.exists(p):
            with zipfile.ZipFile(p) as z:
                yield {'spec': json.loads(z.read('langspec.json')), 'models': []}


CLAUSES = [
    Clause('shipped-languages', check_case, kind='exhaustive', enumerate=_corelang_cases, shards={'quick': 2, 'thorough': 6},
           space='the two language specifications shipped under tests/testdata'),
    Clause('wellformed', check_case, kind='random', strategy=wellformed_cases, budget={'quick': 4000, 'thorough': 120000}),
    Clause('illformed', check_case, kind='random', strategy=illformed_cases, budget={'quick': 2500, 'thorough': 60000}),
]
