"""C12 - attack-surface queries follow their definition; incremental = recomputed."""
from __future__ import annotations

import itertools

from hypothesis import strategies as st

from ..driver import Clause, Outcome
from .. import aggen
from ..aggen import node, snapshot

PROPERTY = 'C12'
RULE = ('hand-built attack graphs (mirrored edges incl. cycles, self-loops and multi-edges, arbitrary viability / '
        'necessity labels, suppress tags, defenses with status {0,0.5,1}) with 1-3 attackers, compromises interleaved with undone compromises (also graphs generated from G_lang x G_model, attackers attached, labelled by the analyser) and a sequence of '
        'compromise batches; exhaustive: all 3-node graphs over a reduced alphabet x all compromise subsets. '
        'Oracle: definitional reference for traversability (every node x attacker), attack surface (as a set; the '
        'returned list must be duplicate-free), defense surface, enabled defenses; after each batch '
        'update_attack_surface_add_nodes(previous, batch) must equal get_attack_surface recomputed; the graph '
        'snapshot (nodes, labels, edges, attackers) must be identical before and after every query. '
        'Non-trivial: an and-step with >=2 necessary parents of which a proper non-empty subset is compromised, '
        'and >=2 batches (random clause) / the and-step condition (exhaustive clause).')
ASSUMPTIONS = ['the list passed to update_attack_surface_add_nodes may be extended in place',
               'edges are mirrored (children <-> parents), as every graph produced by the toolbox is']


def _trav(n, a):
    if not n.is_viable:
        return False
    if n.type == 'or':
        return True
    if n.type == 'and':
        return all(any(x is a for x in p.compromised_by) for p in n.parents if p.is_necessary)
    return False


def _surface(a):
    out = []
    for r in a.reached_attack_steps:
        for c in r.children:
            if _trav(c, a) and not any(c is x for x in out):
                out.append(c)
    return out


def check_case(case) -> Outcome:
    from maltoolbox.attackgraph import query
    out = Outcome()
    if 'graph' in case:
        g, objs, atts = aggen.build(case['graph'])
    else:
        # generated from a language and a model, attackers attached, labelled by the analyser
        from .c01 import generate_graph
        from maltoolbox.attackgraph.analyzers.apriori import calculate_viability_and_necessity
        lg, model, mobjs, g, err, msg = generate_graph(case['spec'], case['model'])
        if err:
            out.classes.append('skipped:' + err)
            return out
        try:
            g.attach_attackers()
            calculate_viability_and_necessity(g)
        except Exception as e:
            out.classes.append('skipped:prepare:' + type(e).__name__)
            return out
        objs, atts = list(g.nodes), list(g.attackers)
        if not objs:
            return out
    interesting = False

    def partial_and():
        for n in objs:
            if n.type == 'and':
                nec = {id(p): p for p in n.parents if p.is_necessary}
                if len(nec) >= 2:
                    for a in atts:
                        k = sum(1 for p in nec.values() if any(x is a for x in p.compromised_by))
                        if 0 < k < len(nec):
                            return True
        return False

    def queries(tag):
        nonlocal interesting
        interesting = interesting or partial_and()
        before = snapshot(g)
        try:
            for a in atts:
                for n in objs:
                    got = query.is_node_traversable_by_attacker(n, a)
                    if got != _trav(n, a):
                        out.add(f'traversable:{n.type}', f'{tag}: {n.full_name} for {a.name}: {got}')
                s = query.get_attack_surface(a)
                if len({id(x) for x in s}) != len(s):
                    out.add('attack-surface-duplicates', f'{tag}: {a.name}')
                if {id(x) for x in s} != {id(x) for x in _surface(a)}:
                    out.add('attack-surface-differs', f'{tag}: {a.name}: {[x.full_name for x in s]} != {[x.full_name for x in _surface(a)]}')
            ds = query.get_defense_surface(g)
            ed = query.get_enabled_defenses(g)
            exp_ds = [n for n in g.nodes if n.type == 'defense' and 'suppress' not in n.tags and n.defense_status != 1.0]
            exp_ed = [n for n in g.nodes if n.type == 'defense' and 'suppress' not in n.tags and n.defense_status == 1.0]
            if {id(x) for x in ds} != {id(x) for x in exp_ds} or len(ds) != len(exp_ds):
                out.add('defense-surface-differs', tag)
            if {id(x) for x in ed} != {id(x) for x in exp_ed} or len(ed) != len(exp_ed):
                out.add('enabled-defenses-differ', tag)
        except Exception as e:
            out.add('query-raises', f'{type(e).__name__}: {e}')
        if snapshot(g) != before:
            out.add('query-changes-graph', tag)

    queries('start')
    if out.discrepancies or not atts:
        out.nontrivial = interesting and not case['batches']
        return out
    current = {id(a): list(query.get_attack_surface(a)) for a in atts}
    nb = 0
    for j, batch in case['batches']:
        a = atts[j % len(atts)]
        if batch and isinstance(batch[0], str):
            # ['undo', k]: the attacker gives up one of its reached steps; the definitional clauses must keep
            # holding, and the incremental bookkeeping restarts from a recomputed surface
            if a.reached_attack_steps:
                a.undo_compromise(a.reached_attack_steps[batch[1] % len(a.reached_attack_steps)])
            if len(batch) > 2 and batch[2] % 3:
                # ... and reaches another step before anything is asked again (the number of reached steps is then
                # the same as at the previous query)
                a.compromise(objs[batch[2] % len(objs)])
            current[id(a)] = list(query.get_attack_surface(a))
            queries(f'after undo')
            if out.discrepancies:
                break
            continue
        new = []
        for i in batch:
            n = objs[i % len(objs)]
            a.compromise(n)
            if not any(n is x for x in new):
                new.append(n)
        nb += 1
        before = snapshot(g)
        try:
            upd = query.update_attack_surface_add_nodes(a, current[id(a)], new)
        except Exception as e:
            out.add('incremental-raises', f'{type(e).__name__}: {e}')
            break
        if snapshot(g) != before:
            out.add('incremental-changes-graph', f'batch {nb}')
        scratch = query.get_attack_surface(a)
        if {id(x) for x in upd} != {id(x) for x in scratch}:
            out.add('incremental-differs-from-recomputed',
                    f'batch {nb}: {sorted(x.full_name for x in upd)} != {sorted(x.full_name for x in scratch)}')
        if len({id(x) for x in upd}) != len(upd):
            out.add('incremental-duplicates', f'batch {nb}')
        current[id(a)] = list(upd)
        queries(f'after batch {nb}')
        if out.discrepancies:
            break
    out.nontrivial = interesting and (nb >= 2 or case.get('exhaustive', False))
    return out


@st.composite
def cases(draw):
    g = draw(aggen.graphs(max_nodes=10, min_nodes=2, labels=True, attackers=3,
                          types=['or', 'and', 'and', 'and', 'defense', 'or', 'exist']))
    if not g['attackers']:
        g['attackers'] = [{'name': 'Att0', 'reached': [0]}]
    small = st.integers(0, 11)
    batches = draw(st.lists(st.one_of(
        st.tuples(small, st.lists(small, min_size=1, max_size=3)).map(list),
        st.tuples(small, st.lists(small, min_size=1, max_size=3)).map(list),
        st.tuples(small, st.tuples(st.just('undo'), small, small).map(list)).map(list)), max_size=5))
    return {'graph': g, 'batches': batches}


@st.composite
def generated_cases(draw):
    from ..modelgen import lang_and_model
    c = draw(lang_and_model({'max_assets': 4, 'max_expr_depth': 2, 'arith_ttc': False},
                            {'max_assets': 5, 'attackers': True, 'min_assets': 1}))
    small = st.integers(0, 40)
    c['batches'] = draw(st.lists(st.tuples(small, st.lists(small, min_size=1, max_size=3)).map(list), max_size=4))
    return c


def _enum(tier):
    variants = [node('or', viable=True, necessary=True), node('or', viable=True, necessary=False),
                node('and', viable=True, necessary=True), node('and', viable=False, necessary=True),
                node('defense', 0.0, viable=True, necessary=False, tags=['suppress']),
                node('defense', 1.0, viable=False, necessary=True)]
    pairs = [(i, j) for i in range(3) for j in range(3)]
    stride = 6 if tier == 'quick' else 1
    k = 0
    for combo in itertools.product(variants, repeat=3):
        nodes = []
        for i, d in enumerate(combo):
            d = dict(d)
            d['name'] = f's{i}'
            nodes.append(d)
        for mask in range(1 << 9):
            k += 1
            if k % stride:
                continue
            edges = [[i, j] for b, (i, j) in enumerate(pairs) if mask >> b & 1]
            for sub in range(1, 8):
                reached = [i for i in range(3) if sub >> i & 1]
                yield {'graph': {'nodes': nodes, 'edges': edges, 'attackers': [{'name': 'A', 'reached': reached}]},
                       'batches': [], 'exhaustive': True}


CLAUSES = [
    Clause('three-node-graphs', check_case, kind='exhaustive', enumerate=_enum,
           space='all 3-node graphs over 6 node variants x all 2^9 edge sets x all non-empty compromise subsets (quick tier: every 6th graph)'),
    Clause('random', check_case, kind='random', strategy=cases, budget={'quick': 12000, 'thorough': 360000}),
    Clause('generated-graphs', check_case, kind='random', strategy=generated_cases, budget={'quick': 1500, 'thorough': 45000}),
]
