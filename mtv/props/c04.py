"""C04 - the MAL compiler's output is the language the source text denotes."""
from __future__ import annotations

import copy
import json
import os

from hypothesis import strategies as st

from ..driver import Clause, Outcome
from ..env import worker_tmp
from ..langgen import languages, lang_classes
from .. import malprint
from .. import tinylang as T

PROPERTY = 'C04'
RULE = ('(a) G_lang specifications printed as MAL text by the harness printer (minimal parenthesisation, random '
        'layout: multiplicity spellings, Name vs Name(), comments, association block sizes) and compiled: the '
        'result must be deep-equal to the specification - also for free-form (untyped) expression and TTC trees of depth <= 4, which the compiler accepts because it does not type-check; (b) the two specifications shipped in tests/testdata/*.mar '
        '(produced by the reference compiler malc) printed and compiled: identical result; (c) hand-written '
        'sources with hand-derived expected trees pinning precedence / associativity of set operators, dots, '
        'star / subtype suffixes, TTC arithmetic and every multiplicity form; (d) the same declarations '
        'distributed over 1-4 files with nested and repeated includes compile to the same specification as the '
        'single file (top-level lists compared order-insensitively). Independent classification clause: in every '
        'compiled reaches expression the last component is an attackStep and every other identifier a field. '
        'Non-trivial: the source contains a set operator as right operand, a TTC chain of >=3 terms, a '
        'subtype/transitive combination or an include, and the compiled specification is non-empty.')
ASSUMPTIONS = ['malc itself cannot be run offline: it enters through the two shipped .mar files and mal.g4',
               'includes are kept in the directory of the root file (the compiler resolves them relative to the root)']


def _compile(path):
    from maltoolbox.language.compiler import MalCompiler
    return MalCompiler().compile(path)


def _first_diff(a, b, path=''):
    if type(a) is not type(b):
        return f'{path}: {type(a).__name__} {a!r} != {type(b).__name__} {b!r}'[:400]
    if isinstance(a, dict):
        for k in sorted(set(a) | set(b)):
            if k not in a or k not in b:
                return f'{path}.{k}: missing on one side'
            d = _first_diff(a[k], b[k], f'{path}.{k}')
            if d:
                return d
        return None
    if isinstance(a, list):
        if len(a) != len(b):
            return f'{path}: length {len(a)} != {len(b)}'
        for i, (x, y) in enumerate(zip(a, b)):
            d = _first_diff(x, y, f'{path}[{i}]')
            if d:
                return d
        return None
    return None if a == b else f'{path}: {a!r} != {b!r}'[:400]


def _sig_of_diff(d):
    for key, sig in (('.ttc', 'ttc'), ('Multiplicity', 'multiplicity'), ('.reaches', 'reaches'), ('.requires', 'requires'),
                     ('.variables', 'variables'), ('.meta', 'meta'), ('.tags', 'tags'), ('.risk', 'risk'),
                     ('.categories', 'categories'), ('.associations', 'associations'), ('.defines', 'defines'),
                     ('.assets', 'assets')):
        if key in d:
            return sig
    return 'other'


def _classification(spec, out):
    def walk(e, last):
        t = e['type']
        if t in ('field', 'attackStep'):
            if (t == 'attackStep') != last:
                out.add('classification', f'{e["name"]} classified {t} (last={last})')
        elif t == 'collect':
            walk(e['lhs'], False)
            walk(e['rhs'], last)
        elif t in ('union', 'intersection', 'difference'):
            walk(e['lhs'], False)
            walk(e['rhs'], False)
        elif t in ('subType', 'transitive'):
            walk(e['stepExpression'], last if t == 'subType' else False)
    for a in spec['assets']:
        for s in a['attackSteps']:
            for e in (s['reaches']['stepExpressions'] if s['reaches'] else []):
                walk(e, True)
            for e in (s['requires']['stepExpressions'] if s['requires'] else []):
                walk(e, False)
        for v in a['variables']:
            walk(v['stepExpression'], False)


def _features(spec):
    f = set()

    def walk(e):
        if not isinstance(e, dict):
            return
        if e['type'] in ('union', 'intersection', 'difference') and e['rhs']['type'] in ('union', 'intersection', 'difference'):
            f.add('setop-as-right-operand')
        if e['type'] == 'collect' and e['rhs']['type'] in ('collect', 'union', 'intersection', 'difference'):
            f.add('parenthesised-right-of-dot')
        if e['type'] == 'subType' and e['stepExpression']['type'] in ('transitive', 'subType'):
            f.add('subtype-transitive-combination')
        if e['type'] == 'transitive' and e['stepExpression']['type'] not in ('field',):
            f.add('transitive-over-parenthesis')
        for k in ('lhs', 'rhs', 'stepExpression'):
            if k in e:
                walk(e[k])

    def ttc_terms(e):
        if not isinstance(e, dict) or e['type'] in ('function', 'number'):
            return 1
        return ttc_terms(e['lhs']) + ttc_terms(e['rhs'])
    for a in spec['assets']:
        for v in a['variables']:
            walk(v['stepExpression'])
        for s in a['attackSteps']:
            for key in ('reaches', 'requires'):
                for e in (s[key]['stepExpressions'] if s[key] else []):
                    walk(e)
            if s['ttc'] and ttc_terms(s['ttc']) >= 3:
                f.add('ttc-chain>=3')
    return f


def check_roundtrip(case) -> Outcome:
    out = Outcome()
    spec = case['spec']
    opts = case.get('opts') or {}
    d = worker_tmp('c04')
    for fn in os.listdir(d):
        os.unlink(os.path.join(d, fn))
    feats = _features(spec)
    layout = case.get('layout')
    if layout and max(layout.get('assign', [0]) or [0]) > 0:
        feats.add('include')
    out.classes += sorted(feats)
    try:
        if layout:
            path = malprint.write_layout(spec, d, layout, opts)
        else:
            path = os.path.join(d, 'main.mal')
            with open(path, 'w', encoding='utf-8') as f:
                f.write(malprint.single_file(spec, opts))
    except Exception as e:   # printer problem = harness problem
        raise
    try:
        got = _compile(path)
    except Exception as e:
        out.add('compile-raises-on-valid-source', f'{type(e).__name__}: {e}')
        return out
    exp = copy.deepcopy(spec)
    if layout:
        for k in ('categories', 'assets', 'associations'):
            if not isinstance(got.get(k), list):
                out.add('compiled-spec-malformed', k)
                return out
            got[k] = sorted(got[k], key=lambda x: json.dumps(x, sort_keys=True))
            exp[k] = sorted(exp[k], key=lambda x: json.dumps(x, sort_keys=True))
    diff = _first_diff(got, exp, 'spec')
    if diff:
        out.add(('layout:' if layout else 'roundtrip:') + _sig_of_diff(diff), diff)
    _classification(got, out)
    out.nontrivial = bool(feats) and bool(got.get('assets'))
    return out


# ---- hand-written corpus ----------------------------------------------------------------------------

F, S, col, op, sub, star, var = T.F, T.S, T.col, T.op, T.sub, T.star, T.var
fn = lambda n, *a: {'type': 'function', 'name': n, 'arguments': list(a)}
num = lambda v: {'type': 'number', 'value': float(v)}
bin_ = lambda t, l, r: {'type': t, 'lhs': l, 'rhs': r}

TEMPLATE = '''#id: "org.hand"
#version: "0.0.1"
category Cat {
  asset X {
    | s %(TTC)s
      -> %(EXPR)s
  }
  asset Y extends X { | t }
}
associations {
  X [a] * <-- L --> * [b] X
  X [c] 0..1 <-- M --> 1..* [d] X
  X [e] 1 <-- N --> 0..* [f] Y
}
'''
# (source of one reaches expression, expected tree)
HAND_EXPRS = [
    ('(a \\/ b /\\ c - d).s', col(op('difference', op('intersection', op('union', F('a'), F('b')), F('c')), F('d')), S('s'))),
    ('(a \\/ (b /\\ c)).s', col(op('union', F('a'), op('intersection', F('b'), F('c'))), S('s'))),
    ('a.b.c.s', col(col(col(F('a'), F('b')), F('c')), S('s'))),
    ('a.(b.c).s', col(col(F('a'), col(F('b'), F('c'))), S('s'))),
    ('a.(b.c.s)', col(F('a'), col(col(F('b'), F('c')), S('s')))),
    ('(a \\/ b).c*[Y].t', col(col(op('union', F('a'), F('b')), sub('Y', star(F('c')))), S('t'))),
    ('a*[Y].t', col(sub('Y', star(F('a'))), S('t'))),
    ('(a[Y])*.t', col(star(sub('Y', F('a'))), S('t'))),
    ('a[Y][Y].t', col(sub('Y', sub('Y', F('a'))), S('t'))),
    ('a[X][Y].t', col(sub('Y', sub('X', F('a'))), S('t'))),
    ('((a.b)[X])*[Y].t', col(sub('Y', star(sub('X', col(F('a'), F('b'))))), S('t'))),
    ('(a.b)*.s', col(star(col(F('a'), F('b'))), S('s'))),
    ('s', S('s')),
    ('a.s, b.s,\n c.s', [col(F('a'), S('s')), col(F('b'), S('s')), col(F('c'), S('s'))]),
]
HAND_TTCS = [
    ('[Aa * 2 / 3 + Bb ^ 2 - 1]', bin_('subtraction', bin_('addition', bin_('division', bin_('multiplication', fn('Aa'), num(2)), num(3)),
                                                        bin_('exponentiation', fn('Bb'), num(2))), num(1))),
    ('[Aa - Bb - Cc]', bin_('subtraction', bin_('subtraction', fn('Aa'), fn('Bb')), fn('Cc'))),
    ('[Aa - Bb + Cc]', bin_('addition', bin_('subtraction', fn('Aa'), fn('Bb')), fn('Cc'))),
    ('[Aa + Bb - Cc + Dd]', bin_('addition', bin_('subtraction', bin_('addition', fn('Aa'), fn('Bb')), fn('Cc')), fn('Dd'))),
    ('[Aa - (Bb - Cc)]', bin_('subtraction', fn('Aa'), bin_('subtraction', fn('Bb'), fn('Cc')))),
    ('[Aa / Bb * Cc]', bin_('multiplication', bin_('division', fn('Aa'), fn('Bb')), fn('Cc'))),
    ('[Aa * Bb * Cc * Dd]', bin_('multiplication', bin_('multiplication', bin_('multiplication', fn('Aa'), fn('Bb')), fn('Cc')), fn('Dd'))),
    ('[Exponential(0.1) + Gamma(1.5, 2)]', bin_('addition', fn('Exponential', 0.1), fn('Gamma', 1.5, 2.0))),
    ('[(Aa + Bb) * Cc]', bin_('multiplication', bin_('addition', fn('Aa'), fn('Bb')), fn('Cc'))),
    ('[Bernoulli(0.5)]', fn('Bernoulli', 0.5)),
    ('[Enabled()]', fn('Enabled')),
    ('[2 ^ (Aa ^ 3)]', bin_('exponentiation', num(2), bin_('exponentiation', fn('Aa'), num(3)))),
]
HAND_ASSOCS = [
    {'name': 'L', 'meta': {}, 'leftAsset': 'X', 'leftField': 'a', 'leftMultiplicity': {'min': 0, 'max': None},
     'rightAsset': 'X', 'rightField': 'b', 'rightMultiplicity': {'min': 0, 'max': None}},
    {'name': 'M', 'meta': {}, 'leftAsset': 'X', 'leftField': 'c', 'leftMultiplicity': {'min': 0, 'max': 1},
     'rightAsset': 'X', 'rightField': 'd', 'rightMultiplicity': {'min': 1, 'max': None}},
    {'name': 'N', 'meta': {}, 'leftAsset': 'X', 'leftField': 'e', 'leftMultiplicity': {'min': 1, 'max': 1},
     'rightAsset': 'Y', 'rightField': 'f', 'rightMultiplicity': {'min': 0, 'max': None}},
]


def _hand_cases(tier):
    for src, tree in HAND_EXPRS:
        if tree is None:
            continue
        yield {'expr': src, 'ttc': '', 'exp_expr': tree if isinstance(tree, list) else [tree], 'exp_ttc': None}
    for src, tree in HAND_TTCS:
        yield {'expr': 's', 'ttc': src, 'exp_expr': [S('s')], 'exp_ttc': tree}


def check_hand(case) -> Outcome:
    out = Outcome()
    d = worker_tmp('c04')
    path = os.path.join(d, 'hand.mal')
    with open(path, 'w') as f:
        f.write(TEMPLATE % {'TTC': case['ttc'], 'EXPR': case['expr']})
    try:
        got = _compile(path)
    except Exception as e:
        out.add('hand:compile-raises', f'{type(e).__name__}: {e}')
        return out
    out.nontrivial = True
    try:
        x = got['assets'][0]
        s = x['attackSteps'][0]
        if s['reaches']['stepExpressions'] != case['exp_expr'] or s['reaches']['overrides'] is not True:
            out.add('hand:expression-tree', f'{case["expr"]!r} -> {json.dumps(s["reaches"])}')
        if s['ttc'] != case['exp_ttc']:
            out.add('hand:ttc-tree', f'{case["ttc"]!r} -> {json.dumps(s["ttc"])}')
        if got['associations'] != HAND_ASSOCS:
            out.add('hand:associations', json.dumps(got['associations'])[:400])
        if got['defines'] != {'id': 'org.hand', 'version': '0.0.1'} or got['categories'] != [{'name': 'Cat', 'meta': {}}]:
            out.add('hand:defines-or-categories', '')
        y = got['assets'][1]
        if (x['name'], x['superAsset'], x['isAbstract'], y['name'], y['superAsset']) != ('X', None, False, 'Y', 'X'):
            out.add('hand:assets', '')
    except Exception as e:
        out.add('hand:result-malformed', f'{type(e).__name__}: {e}')
    return out


# ---- shipped languages ------------------------------------------------------------------------------------

def _shipped(tier):
    import zipfile
    from ..env import REPO
    for fnm in ('org.mal-lang.coreLang-1.0.0.mar', 'corelang-union-common-ancestor.mar'):
        p = os.path.join(REPO, 'tests', 'testdata', fnm)
        if os.path.exists(p):
            with zipfile.ZipFile(p) as z:
                spec = json.loads(z.read('langspec.json'))
            yield {'spec': spec, 'opts': {}}
            yield {'spec': spec, 'opts': {'comments': True, 'assocs_per_block': 7, 'mult_forms': [0, 1, 2, 3]},
                   'layout': {'assign': [0, 0, 0, 1, 2, 1, 3, 0, 2, 3] * 4, 'parent': [0, 0, 1, 0], 'repeat': [1, 3]}}


# ---- free-form expression and TTC trees (the compiler does not type-check, so any shape is a valid program) ----

def _free_expr(draw, depth, last):
    """arbitrary expression tree; `last` = this sub-tree is in the position whose final name is the attack step"""
    names = ['a', 'b', 'c', 'd', 'e', 'f']
    k = draw(st.integers(0, 9)) if depth > 0 else 0
    if k <= 2:
        if last:
            return {'type': 'attackStep', 'name': draw(st.sampled_from(['s', 't']))}
        if draw(st.integers(0, 4)) == 0:
            return {'type': 'variable', 'name': draw(st.sampled_from(['va', 'vb']))}
        return {'type': 'field', 'name': draw(st.sampled_from(names))}
    if k <= 5:
        return {'type': 'collect', 'lhs': _free_expr(draw, depth - 1, False), 'rhs': _free_expr(draw, depth - 1, last)}
    if last:
        # the step name must be the last component: wrap a non-last tree
        return {'type': 'collect', 'lhs': _free_expr(draw, depth, False),
                'rhs': {'type': 'attackStep', 'name': draw(st.sampled_from(['s', 't']))}}
    if k <= 7:
        return {'type': draw(st.sampled_from(['union', 'intersection', 'difference'])),
                'lhs': _free_expr(draw, depth - 1, False), 'rhs': _free_expr(draw, depth - 1, False)}
    if k == 8:
        return {'type': 'subType', 'subType': draw(st.sampled_from(['X', 'Y'])),
                'stepExpression': _free_expr(draw, depth - 1, False)}
    return {'type': 'transitive', 'stepExpression': _free_expr(draw, depth - 1, False)}


def _free_ttc(draw, depth):
    k = draw(st.integers(0, 9)) if depth > 0 else 0
    if k <= 3:
        if draw(st.integers(0, 3)) == 0:
            return {'type': 'number', 'value': draw(st.sampled_from([0.0, 1.0, 2.5, 10.0, 0.125]))}
        name, nargs = draw(st.sampled_from([('Exponential', 1), ('Gamma', 2), ('Bernoulli', 1), ('Infinity', 0), ('Zero', 0)]))
        return {'type': 'function', 'name': name,
                'arguments': [draw(st.sampled_from([0.5, 1.0, 3.0, 0.25])) for _ in range(nargs)]}
    t = draw(st.sampled_from(['addition', 'subtraction', 'multiplication', 'division', 'exponentiation']))
    return {'type': t, 'lhs': _free_ttc(draw, depth - 1), 'rhs': _free_ttc(draw, depth - 1)}


@st.composite
def freeform_cases(draw):
    """a two-asset language whose steps carry arbitrary expression / TTC trees"""
    steps = []
    for i, n in enumerate(['s', 't', 'u']):
        reaches = [_free_expr(draw, 4, True) for _ in range(draw(st.integers(1, 3)))]
        steps.append(T.step(n, draw(st.sampled_from(['or', 'and'])), reaches=reaches,
                            overrides=True, ttc=_free_ttc(draw, 4) if draw(st.booleans()) else None))
    steps.append(T.step('w', 'exist', requires=[_free_expr(draw, 3, False)]))
    variables = [('va', _free_expr(draw, 3, False)), ('vb', _free_expr(draw, 2, False))]
    spec = T.lang([T.asset('X', steps, variables=variables), T.asset('Y', [T.step('s', reaches=[_free_expr(draw, 3, True)], overrides=False)], parent='X')],
                  [T.assoc('L', 'X', 'a', 'X', 'b'), T.assoc('M', 'X', 'c', 'Y', 'd', lmult=(0, 1), rmult=(1, None)),
                   T.assoc('N', 'Y', 'e', 'Y', 'f', lmult=(1, 1))])
    return {'spec': spec, 'opts': draw(_opts())}


@st.composite
def _opts(draw):
    return {'comments': draw(st.booleans()), 'dist_parens': draw(st.booleans()),
            'assocs_per_block': draw(st.sampled_from([1000, 1, 2])),
            'mult_forms': draw(st.lists(st.integers(0, 3), min_size=1, max_size=3))}


@st.composite
def roundtrip_cases(draw):
    spec = draw(languages(max_assets=5, max_expr_depth=3))
    return {'spec': spec, 'opts': draw(_opts())}


@st.composite
def layout_cases(draw):
    spec = draw(languages(max_assets=5, max_expr_depth=2))
    nb = 2 + len(spec['categories']) + len(spec['assets']) + len(spec['associations']) + 2
    k = draw(st.integers(1, 3))
    return {'spec': spec, 'opts': draw(_opts()),
            'layout': {'assign': draw(st.lists(st.integers(0, k), min_size=nb, max_size=nb)),
                       'parent': draw(st.lists(st.integers(0, k), min_size=k + 1, max_size=k + 1)),
                       'repeat': draw(st.lists(st.integers(1, k), max_size=2))}}


CLAUSES = [
    Clause('hand-written-corpus', check_hand, kind='exhaustive', enumerate=_hand_cases, shards={'quick': 4, 'thorough': 12},
           space='hand-written sources with hand-derived expected trees (precedence, associativity, suffixes, TTC arithmetic, multiplicities)'),
    Clause('shipped-languages', check_roundtrip, kind='exhaustive', enumerate=_shipped, shards={'quick': 4, 'thorough': 12},
           space='coreLang and its union variant from the shipped .mar files (reference compiler output), single file and split over 4 files'),
    Clause('roundtrip', check_roundtrip, kind='random', strategy=roundtrip_cases, budget={'quick': 2500, 'thorough': 60000}),
    Clause('freeform-trees', check_roundtrip, kind='random', strategy=freeform_cases, budget={'quick': 1500, 'thorough': 45000}),
    Clause('layouts', check_roundtrip, kind='random', strategy=layout_cases, budget={'quick': 1000, 'thorough': 24000}),
]
