"""C02 - one node per asset x step, attributes faithful to model and language."""
from __future__ import annotations

from collections import Counter

from ..driver import Clause, Outcome
from ..langgen import lang_classes
from ..modelgen import lang_and_model, defenses_of, corelang_models, shipped_spec
from ..ref_eval import AbstractModel, evaluate, exact_results
from ..ref_lang import Lang
from .c01 import generate_graph

PROPERTY = 'C02'
RULE = ('G_lang x G_model (and G_model over the shipped coreLang) with colliding / colon-containing / YAML-significant asset names, explicit ids '
        '(0, negative, gaps), non-default defense values, inherited / overridden / extended steps and '
        'E / !E steps. Oracle: expected node multiset and attributes computed from the case description '
        'with the reference inheritance fold and the reference evaluator; ids and full names must be '
        'unique and both lookups exact. Non-trivial: >=2 assets whose type inherits steps and (a non-default '
        'defense value, an existence step, or a requested name that collides with another asset).')
ASSUMPTIONS = ['the renaming scheme for duplicate names is not prescribed: only uniqueness of live names',
               'only the first requirement of an existence step is asserted on (the property says one requirement)']


def check_case(case) -> Outcome:
    out = Outcome()
    spec, mdesc = case['spec'], case['model']
    L = Lang(spec)
    out.classes += [c for c in lang_classes(spec) if c in ('lang:extend', 'lang:depth>=3', 'lang:depth>=2')]
    lg, model, objs, g, err, msg = generate_graph(spec, mdesc)
    if err:
        if err.startswith('skipped'):
            out.classes.append(err)
        else:
            out.add(err, msg)
        return out
    am = AbstractModel(L, [a['type'] for a in mdesc['assets']], mdesc['links'])
    names = [str(o.name) for o in objs]
    requested = [a['name'] for a in mdesc['assets']]
    collide = len(set(requested)) < len(requested)
    if collide:
        out.classes.append('model:name-collision')
    if len(set(names)) < len(names):
        out.add('asset-names-not-unique', f'requested {requested} live {names}')
    # a non-colliding requested name is kept
    cnt = Counter(requested)
    for i, r in enumerate(requested):
        if cnt[r] == 1 and r not in [n for j, n in enumerate(names) if j != i] and names[i] != r:
            out.add('unique-name-not-kept', f'{r!r} became {names[i]!r}')
    expected = {}
    n_inh = 0
    nondefault = False
    has_exist = False
    for i, a in enumerate(mdesc['assets']):
        fold = L.fold(a['type'])
        own = {s['name'] for s in L.assets[a['type']]['attackSteps']}
        if any(n not in own for n in fold) and L.parent[a['type']] is not None:
            n_inh += 1
        dflt = defenses_of(L, a['type'])
        for sname, sdef in fold.items():
            exp = {'type': sdef['type'], 'ttc': sdef['ttc'], 'tags': sdef['tags'],
                   'mitre': sdef['meta'].get('mitre')}
            if sdef['type'] == 'defense':
                exp['defense'] = float(a['defenses'].get(sname, dflt[sname]))
                if sname in a['defenses'] and float(a['defenses'][sname]) != dflt[sname]:
                    nondefault = True
            if sdef['type'] in ('exist', 'notExist'):
                has_exist = True
                reqs = sdef['requires']['stepExpressions'] if sdef['requires'] else []
                if len(reqs) == 1:
                    vals = {bool(r) for r, _ in exact_results(am, frozenset([i]), reqs[0])}
                    if len(vals) == 1:
                        exp['exists'] = vals.pop()
                    else:
                        out.classes.append('existence-ambiguous-skipped')
            expected[(i, sname)] = exp
    out.nontrivial = n_inh >= 2 and (nondefault or has_exist or collide)
    if nondefault:
        out.classes.append('model:nondefault-defense')
    if has_exist:
        out.classes.append('lang:existence-step')
    idx = {id(o): i for i, o in enumerate(objs)}
    seen = Counter()
    for n in g.nodes:
        i = idx.get(id(n.asset))
        if i is None:
            out.add('node-for-unknown-asset', repr(n.full_name))
            continue
        seen[(i, n.name)] += 1
        exp = expected.get((i, n.name))
        if exp is None:
            out.add('unexpected-node', f'{n.full_name}')
            continue
        if n.type != exp['type']:
            out.add('attr:type', f'{n.full_name}: {n.type} != {exp["type"]}')
        if n.ttc != exp['ttc']:
            out.add('attr:ttc', f'{n.full_name}: {n.ttc} != {exp["ttc"]}')
        if list(n.tags) != list(exp['tags']):
            out.add('attr:tags', f'{n.full_name}: {n.tags} != {exp["tags"]}')
        if n.mitre_info != exp['mitre']:
            out.add('attr:mitre', f'{n.full_name}: {n.mitre_info!r} != {exp["mitre"]!r}')
        if 'defense' in exp:
            try:
                ok = float(n.defense_status) == exp['defense']
            except Exception:
                ok = False
            if not ok:
                out.add('attr:defense_status', f'{n.full_name}: {n.defense_status!r} != {exp["defense"]}')
        if 'exists' in exp and (n.existence_status is None or bool(n.existence_status) != exp['exists']):
            out.add('attr:existence_status', f'{n.full_name}: {n.existence_status!r} != {exp["exists"]}')
    for key in expected:
        if seen[key] == 0:
            out.add('node-missing', f'{names[key[0]]}:{key[1]}')
        elif seen[key] > 1:
            out.add('node-duplicated', f'{names[key[0]]}:{key[1]} x{seen[key]}')
    ids = [n.id for n in g.nodes]
    if len(set(ids)) != len(ids) or any(not isinstance(x, int) for x in ids):
        out.add('node-ids-not-unique', str(ids)[:200])
    fns = [n.full_name for n in g.nodes]
    if len(set(fns)) != len(fns):
        out.add('full-names-not-unique', str([f for f, c in Counter(fns).items() if c > 1])[:200])
    for n in g.nodes:
        if g.get_node_by_id(n.id) is not n:
            out.add('lookup-by-id', f'{n.full_name} id {n.id}')
        if g.get_node_by_full_name(n.full_name) is not n:
            out.add('lookup-by-full-name', f'{n.full_name}')
    for absent in (max(ids, default=0) + 1, -1 if -1 not in ids else -12345):
        if absent not in ids and g.get_node_by_id(absent) is not None:
            out.add('lookup-by-id-absent', str(absent))
    if g.get_node_by_full_name('no such asset:no such step') is not None:
        out.add('lookup-by-name-absent', '')
    # a second graph generated from the same language and model must not disturb the lookups of the first
    if not out.discrepancies:
        try:
            from maltoolbox.attackgraph import AttackGraph
            g2 = AttackGraph(lg, model)
        except Exception as e:
            out.add('second-generation-raises', f'{type(e).__name__}: {e}')
            return out
        for n in g.nodes:
            if g.get_node_by_id(n.id) is not n or g.get_node_by_full_name(n.full_name) is not n:
                out.add('lookup-disturbed-by-second-graph', n.full_name)
                break
        for n in g2.nodes:
            if g2.get_node_by_id(n.id) is not n or g2.get_node_by_full_name(n.full_name) is not n:
                out.add('lookup-of-second-graph', n.full_name)
                break
    return out


def check_corelang(case) -> Outcome:
    spec = shipped_spec()
    if spec is None:
        return Outcome()
    return check_case({'spec': spec, 'model': case['model']})


CLAUSES = [
    Clause('random', check_case, kind='random',
           strategy=lambda: lang_and_model(
               {'max_assets': 5, 'max_expr_depth': 2, 'deep_chains': True},
               {'max_assets': 6, 'weird_names': True, 'explicit_ids': True, 'attackers': False,
                'min_assets': 1}),
           budget={'quick': 8000, 'thorough': 100000}),
    Clause('random-plain-names', check_case, kind='random',
           strategy=lambda: lang_and_model(
               {'max_assets': 6, 'max_expr_depth': 2},
               {'max_assets': 7, 'explicit_ids': True, 'attackers': False, 'min_assets': 2}),
           budget={'quick': 4000, 'thorough': 50000}),
    Clause('corelang-models', check_corelang, kind='random',
           strategy=lambda: corelang_models(max_assets=6, attackers=False, weird_names=True, explicit_ids=True,
                                            min_assets=1).map(lambda m: {'model': m}),
           budget={'quick': 480, 'thorough': 10000}),
]
