"""C07 - saving and loading a model preserves it (JSON and YAML)."""
from __future__ import annotations

import json
import os

from hypothesis import strategies as st

from ..driver import Clause, Outcome
from ..env import worker_tmp
from ..langgen import languages
from ..modelgen import (models, build_language, build_model, assoc_class_name, defenses_of, WEIRD_NAMES,
                        resolve_spec, corelang_pool)
from ..modelstate import typed_state
from ..ref_lang import Lang

PROPERTY = 'C07'
RULE = ('models built through the API from G_lang x G_model descriptions (explicit / zero / negative ids, '
        'duplicate, unicode and YAML-significant names, non-default defenses, extras on assets and '
        'associations, several attackers with several entry points, duplicate-named association classes) '
        'followed by removals (id gaps) and optionally a first save followed by changes to the live model (defense values, extras) x {json, yml, yaml}; plus hand-written file dicts with permuted asset '
        'order, id 0 at any position and the type-only shorthand. Oracle: round trip - typed observable state '
        '(attributes, not the dict form) of the loaded model equals the original / the model the file '
        'describes, and save(load(save(m))) has the same content as save(m). Non-trivial: an id gap or an '
        'explicit 0/negative id, and a non-default defense or extras or >=2 attackers.')
ASSUMPTIONS = ['metadata other than the model name is not compared',
               'attackers with colliding ids are not generated (the file format is keyed by id)',
               'association class names start with an upper-case letter (MAL convention), so the YAML key '
               'order keeps the class name before "extras"']

EXTRAS = [{'x': 1}, {'position': {'x': 1.5, 'y': -2}}, {'note': 'yes', 'tags': ['a', 'b']}, {'color': 'é'},
          {'2024': 'digit-only key', 'nested': {'7': 1}}]
FORMATS = ['json', 'yml', 'yaml']


def _load_file(path):
    import yaml
    with open(path, encoding='utf-8') as f:
        return json.load(f) if path.endswith('.json') else yaml.safe_load(f)


def _norm_file(d):
    """file content with int-like keys normalised (JSON stringifies them)"""
    def k(x):
        try:
            return int(x)
        except (TypeError, ValueError):
            return x
    out = {'assets': {k(i): v for i, v in d.get('assets', {}).items()},
           'associations': sorted((json.dumps(a, sort_keys=True, default=str) for a in d.get('associations', []))),
           'attackers': {k(i): {'name': v['name'],
                                'entry_points': {k(a): e for a, e in v['entry_points'].items()}}
                         for i, v in (d.get('attackers') or {}).items()},
           'name': d['metadata']['name']}
    return out


def _cmp_states(out, what, got, exp):
    if got['name'] != exp['name']:
        out.add(f'{what}:model-name', f'{got["name"]!r} != {exp["name"]!r}')
    if set(got['assets']) != set(exp['assets']):
        out.add(f'{what}:asset-ids', f'{sorted(got["assets"])} != {sorted(exp["assets"])}')
    else:
        for i in exp['assets']:
            for key in ('name', 'type', 'defenses', 'extras'):
                if got['assets'][i][key] != exp['assets'][i][key]:
                    out.add(f'{what}:asset-{key}', f'id {i}: {got["assets"][i][key]!r} != {exp["assets"][i][key]!r}')
    gl = [[c, f] for c, f, _ in got['links']]
    el = [[c, f] for c, f, _ in exp['links']]
    if sorted(gl, key=repr) != sorted(el, key=repr):
        out.add(f'{what}:associations', f'{gl} != {el}')
    elif got['links'] != exp['links']:
        out.add(f'{what}:association-extras', f'{got["links"]} != {exp["links"]}')
    if got['attackers'] != exp['attackers']:
        out.add(f'{what}:attackers', f'{got["attackers"]} != {exp["attackers"]}')


def check_roundtrip(case) -> Outcome:
    from maltoolbox.model import Model
    out = Outcome()
    spec, mdesc = resolve_spec(case), case['model']
    if spec is None:
        return out
    try:
        lg, cf = build_language(spec)
        model, objs = build_model(cf, spec, mdesc, name=case['mname'])
        for i, ex in case['link_extras']:
            if model.associations:
                model.associations[i % len(model.associations)].extras = ex
        removed = set()
        for i in case['removals']:
            if objs and (i % len(objs)) not in removed:
                removed.add(i % len(objs))
                model.remove_asset(objs[i % len(objs)])
    except Exception as e:
        out.add('model-construction-raises', f'{type(e).__name__}: {e}')
        return out
    if case.get('resave'):
        # serialise once, then change the live model, so that a stale serialisation would be noticed
        try:
            model._to_dict()
            model.save_to_file(os.path.join(worker_tmp('c07'), 'first.json'))
            L_ = Lang(spec)
            for k, (i, v) in enumerate(case['resave']):
                live = [o for j, o in enumerate(objs) if j not in removed]
                if not live:
                    break
                o = live[i % len(live)]
                dn = sorted(defenses_of(L_, str(o.type)))
                if dn and k % 2 == 0:
                    setattr(o, dn[i % len(dn)], [0.0, 1.0, 0.5, 0.25][v % 4])
                else:
                    o.extras = {'changed': v}
            out.classes.append('saved-mutated-saved')
        except Exception as e:
            out.add('mutation-after-save-raises', f'{type(e).__name__}: {e}')
            return out
    problems = []
    orig = typed_state(model, spec, problems)
    if problems:
        out.add('original-state-unreadable', '; '.join(problems))
        return out
    ids = sorted(orig['assets'])
    gap = bool(ids) and (ids != list(range(ids[0], ids[0] + len(ids))) or min(ids) <= 0 and any(a['id'] is not None and a['id'] <= 0 for a in mdesc['assets']))
    L = Lang(spec)
    nondefault = any(v != defenses_of(L, a['type'])[d] for a in orig['assets'].values() for d, v in a['defenses'].items())
    extras = any(a['extras'] for a in orig['assets'].values()) or any(x for _, _, x in orig['links'])
    out.nontrivial = gap and (nondefault or extras or len(orig['attackers']) >= 2)
    out.classes += [c for c, f in (('gap-or-nonpositive-id', gap), ('nondefault-defense', nondefault),
                                   ('extras', extras), ('attackers>=2', len(orig['attackers']) >= 2),
                                   ('assoc-extras', any(x for _, _, x in orig['links'])),
                                   ('removal', bool(removed))) if f]
    fmt = FORMATS[case['fmt'] % 3]
    out.classes.append('fmt:' + fmt)
    d = worker_tmp('c07')
    p1 = os.path.join(d, 'm1.' + fmt)
    p2 = os.path.join(d, 'm2.' + fmt)
    try:
        model.save_to_file(p1)
    except Exception as e:
        out.add('save-raises', f'{type(e).__name__}: {e}')
        return out
    try:
        loaded = Model.load_from_file(p1, cf)
    except Exception as e:
        out.add('load-raises', f'{type(e).__name__}: {e}')
        return out
    problems = []
    got = typed_state(loaded, spec, problems)
    if problems:
        out.add('loaded-state-malformed', '; '.join(problems))
    _cmp_states(out, 'roundtrip', got, orig)
    try:
        loaded.save_to_file(p2)
        f1, f2 = _norm_file(_load_file(p1)), _norm_file(_load_file(p2))
        if f1 != f2:
            out.add('resave-content-differs', f'{f1} != {f2}'[:600])
    except Exception as e:
        out.add('resave-raises', f'{type(e).__name__}: {e}')
    return out


def check_handwritten(case) -> Outcome:
    """A file dict written by hand (generated directly) must load to the model it describes."""
    import yaml
    from maltoolbox.model import Model
    out = Outcome()
    spec = case['spec']
    L = Lang(spec)
    fmt = FORMATS[case['fmt'] % 3]
    # file content --------------------------------------------------------------------------
    key = (lambda i: str(i)) if fmt == 'json' else (lambda i: i)
    fassets = {}
    exp = {'name': case['mname'], 'assets': {}, 'links': [], 'attackers': {}}
    for a in case['assets']:          # already in file order
        if a['shorthand']:
            fassets[key(a['id'])] = a['type']
            name = f"{a['type']}:{a['id']}"
        else:
            entry = {'name': a['name'], 'type': a['type']}
            if a['defenses']:
                entry['defenses'] = a['defenses']
            if a['extras']:
                entry['extras'] = a['extras']
            fassets[key(a['id'])] = entry
            name = a['name']
        dv = dict(defenses_of(L, a['type']))
        if not a['shorthand']:
            dv.update({k: float(v) for k, v in a['defenses'].items()})
        exp['assets'][a['id']] = {'name': name, 'type': a['type'], 'defenses': dv,
                                  'extras': {} if a['shorthand'] else (a['extras'] or {})}
    fassocs = []
    for ln in case['links']:
        d = spec['associations'][ln['assoc']]
        cls = assoc_class_name(spec, ln['assoc'])
        scalar = ln.get('scalar') and len(ln['left']) == 1
        fassocs.append({cls: {d['leftField']: ln['left'][0] if scalar else ln['left'],
                              d['rightField']: ln['right']}})
        exp['links'].append([cls, {d['leftField']: sorted(ln['left']), d['rightField']: sorted(ln['right'])}, {}])
    exp['links'].sort(key=repr)
    fatt = {}
    for t in case['attackers']:
        fatt[key(t['id'])] = {'name': t['name'],
                              'entry_points': {key(a): {'attack_steps': s} for a, s in t['entry_points']}}
        exp['attackers'][t['id']] = {'name': t['name'], 'entry_points': {a: list(s) for a, s in t['entry_points']}}
    content = {'metadata': {'name': case['mname'], 'langVersion': '1.0.0', 'langID': 'x'},
               'assets': fassets, 'associations': fassocs, 'attackers': fatt}
    ids = [a['id'] for a in case['assets']]
    zero_not_first = 0 in ids and ids[0] != 0
    out.classes += [c for c, f in (('id0-not-first', zero_not_first), ('shorthand', any(a['shorthand'] for a in case['assets'])),
                                   ('unordered', ids != sorted(ids)), ('fmt:' + fmt, True)) if f]
    out.nontrivial = (zero_not_first or ids != sorted(ids)) and len(ids) >= 2
    path = os.path.join(worker_tmp('c07'), 'hand.' + fmt)
    with open(path, 'w', encoding='utf-8') as f:
        if fmt == 'json':
            json.dump(content, f)
        else:
            yaml.safe_dump(content, f, sort_keys=False)
    try:
        lg, cf = build_language(spec)
        loaded = Model.load_from_file(path, cf)
    except Exception as e:
        out.add('handwritten:load-raises', f'{type(e).__name__}: {e}')
        return out
    problems = []
    got = typed_state(loaded, spec, problems)
    if problems:
        out.add('handwritten:loaded-state-malformed', '; '.join(problems))
    _cmp_states(out, 'handwritten', got, exp)
    return out


@st.composite
def roundtrip_cases(draw):
    spec = draw(languages(max_assets=4, max_expr_depth=1, arith_ttc=False))
    m = draw(models(spec, max_assets=6, weird_names=draw(st.booleans()), explicit_ids=True, min_assets=1))
    for a in m['assets']:
        if draw(st.integers(0, 9)) < 3:
            a['extras'] = draw(st.sampled_from(EXTRAS))
    # more attackers with distinct explicit ids now and then
    if m['assets'] and draw(st.integers(0, 9)) < 4:
        # ids that are falsy, negative, or below the asset ids, as well as ones beyond every asset id
        att_ids = draw(st.permutations([0, -2, 100, 101]))
        for j in range(draw(st.integers(1, 2))):
            L = Lang(spec)
            i = draw(st.integers(0, len(m['assets']) - 1))
            steps = L.step_names(m['assets'][i]['type'])
            # in front of the attackers with automatic ids, which then lie beyond these
            m['attackers'].insert(0, {'name': draw(st.sampled_from(['Eve', 'yes', 'Attacker:1', 'é'])) + str(j),
                                   'id': att_ids[j],
                                   'entry_points': [[i, draw(st.lists(st.sampled_from(steps), min_size=1, max_size=2, unique=True))]]})
    return {'spec': spec, 'model': m,
            'resave': draw(st.lists(st.tuples(st.integers(0, 5), st.integers(0, 7)).map(list), max_size=2)),
            'removals': draw(st.lists(st.integers(0, 5), max_size=2)),
            'link_extras': draw(st.lists(st.tuples(st.integers(0, 5), st.sampled_from(EXTRAS)).map(list), max_size=2)),
            'fmt': draw(st.integers(0, 2)),
            'mname': draw(st.sampled_from(['model', 'Test: model', 'yes', 'é', '1']))}


@st.composite
def corelang_roundtrip_cases(draw):
    from ..modelgen import _restrict, shipped_spec
    pool = draw(corelang_pool(2, 4))
    view = _restrict(shipped_spec(), pool)
    m = draw(models(view, max_assets=6, weird_names=draw(st.booleans()), explicit_ids=True, min_assets=1))
    for a in m['assets']:
        if draw(st.integers(0, 9)) < 3:
            a['extras'] = draw(st.sampled_from(EXTRAS))
    return {'lang': 'corelang', 'pool': pool, 'model': m,
            'removals': draw(st.lists(st.integers(0, 5), max_size=2)),
            'link_extras': draw(st.lists(st.tuples(st.integers(0, 5), st.sampled_from(EXTRAS)).map(list), max_size=2)),
            'fmt': draw(st.integers(0, 2)), 'mname': draw(st.sampled_from(['model', 'Test: model']))}


@st.composite
def handwritten_cases(draw):
    spec = draw(languages(max_assets=4, max_expr_depth=1, arith_ttc=False))
    L = Lang(spec)
    concrete = L.concrete()
    n = draw(st.integers(1, 6))
    ids = draw(st.lists(st.sampled_from([0, 1, 2, 3, 5, 8, -1, -4, 12]), min_size=n, max_size=n, unique=True))
    names = draw(st.lists(st.sampled_from(sorted(set(WEIRD_NAMES)) + ['p', 'q', 'r']), min_size=n, max_size=n, unique=True))
    assets = []
    for i in range(n):
        t = draw(st.sampled_from(concrete))
        short = draw(st.integers(0, 9)) < 2
        dv = {}
        for d in sorted(defenses_of(L, t)):
            if draw(st.integers(0, 9)) < 4:
                dv[d] = draw(st.sampled_from([0, 1, 0.5, 0.25, 1.0, 0.0]))
        assets.append({'id': ids[i], 'name': names[i], 'type': t, 'shorthand': short, 'defenses': dv,
                       'extras': draw(st.sampled_from(EXTRAS)) if draw(st.integers(0, 9)) < 3 else None})
    # names of shorthand assets are generated by the loader; keep the others distinct from them
    auto = {f"{a['type']}:{a['id']}" for a in assets if a['shorthand']}
    for a in assets:
        if not a['shorthand'] and a['name'] in auto:
            a['name'] = a['name'] + '_'
    links = []
    for k, d in enumerate(spec['associations']):
        lefts = [a['id'] for a in assets if L.is_sub(a['type'], d['leftAsset'])]
        rights = [a['id'] for a in assets if L.is_sub(a['type'], d['rightAsset'])]
        if lefts and rights and draw(st.booleans()):
            lmax = d['leftMultiplicity']['max'] or 2
            rmax = d['rightMultiplicity']['max'] or 2
            ls = draw(st.lists(st.sampled_from(lefts), min_size=1, max_size=min(2, lmax), unique=True))
            rs = draw(st.lists(st.sampled_from(rights), min_size=1, max_size=min(2, rmax), unique=True))
            links.append({'assoc': k, 'left': ls, 'right': rs, 'scalar': draw(st.booleans())})
    atts = []
    for j in range(draw(st.integers(0, 2))):
        eps = []
        for aid in draw(st.lists(st.sampled_from(ids), max_size=2, unique=True)):
            t = next(a['type'] for a in assets if a['id'] == aid)
            eps.append([aid, draw(st.lists(st.sampled_from(L.step_names(t)), min_size=1, max_size=2, unique=True))])
        atts.append({'id': 40 + j, 'name': f'Att{j}', 'entry_points': eps})
    return {'spec': spec, 'assets': assets, 'links': links, 'attackers': atts,
            'fmt': draw(st.integers(0, 2)), 'mname': draw(st.sampled_from(['hand', 'a: b']))}


CLAUSES = [
    Clause('roundtrip', check_roundtrip, kind='random', strategy=roundtrip_cases,
           budget={'quick': 6000, 'thorough': 120000}),
    Clause('corelang-roundtrip', check_roundtrip, kind='random', strategy=corelang_roundtrip_cases,
           budget={'quick': 320, 'thorough': 12000}),
    Clause('handwritten-files', check_handwritten, kind='random', strategy=handwritten_cases,
           budget={'quick': 3000, 'thorough': 60000}),
]
