"""C19 - Neo4j export is isomorphic to what is exported, and import inverts it."""
from __future__ import annotations

from hypothesis import strategies as st

from ..driver import Clause, Outcome, HarnessError
from ..modelgen import lang_and_model, resolve_spec, corelang_pool, models
from ..modelstate import typed_state, pairwise_links
from ..ref_lang import Lang
from .c01 import generate_graph

PROPERTY = 'C19'
RULE = ('models and attack graphs from G_lang x G_model (links between sub-typed assets, two different links '
        'between the same pair of assets, self links, duplicate-named association classes) ingested through a '
        'recording stand-in installed as maltoolbox.ingestors.neo4j.Graph (records delete_all / begin / create / '
        'commit and answers exactly the two fixed Cypher strings of get_model by pattern matching over the '
        'recorded py2neo subgraph). Oracle: export - database nodes <-> assets bijectively with asset_id, name, '
        'type; relationship set = for every linked pair (x in field f, y in field g) exactly x-[f]->y and '
        'y-[g]->x; attack graph: one node per step with name, full name, type, TTC, labels, defense status and '
        'one relationship per distinct edge; a second model with re-used ids ingested without delete into the database the attack-graph ingest has wiped must send that model\'s own nodes; import - get_model() over the stand-in yields the same assets and '
        'the same pairwise link set as the ingested model. Non-trivial: >=3 assets, >=2 links, one of them '
        'involving a sub-typed asset or a second link between the same pair.')
ASSUMPTIONS = ['the stand-in implements the semantics of the two queries get_model sends, not Cypher; a real database is not reachable offline',
               "py2neo's client-side merging of equal unbound relationships is real behaviour and observed as such"]

Q_ASSETS = 'MATCH (a) WHERE a.type IS NOT NULL RETURN DISTINCT a'
Q_RELS = 'MATCH (a)-[r1]->(b),(a)<-[r2]-(b) WHERE a.type IS NOT NULL RETURN DISTINCT a, r1, r2, b'

STORE = {'nodes': [], 'rels': [], 'log': []}


class _Cursor:
    def __init__(self, rows):
        self.rows = rows

    def data(self):
        return self.rows


class _Tx:
    def __init__(self):
        self.created = []

    def create(self, subgraph):
        self.created.append(subgraph)


class FakeGraph:
    def __init__(self, *a, **kw):
        STORE['log'].append(('connect', kw))

    def delete_all(self):
        STORE['log'].append(('delete_all',))
        STORE['nodes'], STORE['rels'] = [], []

    def begin(self):
        STORE['log'].append(('begin',))
        return _Tx()

    def commit(self, tx):
        STORE['log'].append(('commit', len(tx.created)))
        for sg in tx.created:
            for n in sg.nodes:
                if not any(n is m for m in STORE['nodes']):
                    STORE['nodes'].append(n)
            for r in sg.relationships:
                STORE['rels'].append(r)

    def run(self, query):
        q = ' '.join(query.split())
        if q == Q_ASSETS:
            return _Cursor([{'a': n} for n in STORE['nodes'] if n.get('type') is not None])
        if q == Q_RELS:
            rows = []
            for r1 in STORE['rels']:
                a, b = r1.start_node, r1.end_node
                if a.get('type') is None:
                    continue
                for r2 in STORE['rels']:
                    if r2.start_node is b and r2.end_node is a:
                        rows.append({'a': a, 'r1': r1, 'r2': r2, 'b': b})
            return _Cursor(rows)
        raise HarnessError(f'stand-in cannot answer query: {query}')


def _install():
    import maltoolbox.ingestors.neo4j as neo
    import py2neo
    if getattr(neo, 'Graph', None) is not FakeGraph:
        neo.Graph = FakeGraph
    # whichever way the ingestor reaches the driver class, it must get the stand-in (never a network connection)
    py2neo.Graph = FakeGraph
    if hasattr(py2neo, 'database') and hasattr(py2neo.database, 'Graph'):
        py2neo.database.Graph = FakeGraph
    STORE['nodes'], STORE['rels'], STORE['log'] = [], [], []
    return neo


def _rtype(r):
    return sorted(r.types())[0] if hasattr(r, 'types') else type(r).__name__


def check_case(case) -> Outcome:
    out = Outcome()
    spec, mdesc = resolve_spec(case), case['model']
    if spec is None:
        return out
    L = Lang(spec)
    lg, model, objs, g, err, msg = generate_graph(spec, mdesc)
    if err:
        out.classes.append('skipped:' + err)
        return out
    neo = _install()
    types = [a['type'] for a in mdesc['assets']]
    sub = any(any(types[m] != spec['associations'][ln['assoc']]['leftAsset'] for m in ln['left']) or
              any(types[m] != spec['associations'][ln['assoc']]['rightAsset'] for m in ln['right'])
              for ln in mdesc['links'])
    pair_count = {}
    for ln in mdesc['links']:
        for l in ln['left']:
            for r in ln['right']:
                pair_count.setdefault(frozenset((l, r)), set()).add(ln['assoc'])
    second = any(len(v) >= 2 for v in pair_count.values())
    out.nontrivial = len(mdesc['assets']) >= 3 and len(mdesc['links']) >= 2 and (sub or second)
    out.classes += [c for c, f in (('link-with-subtyped-asset', sub), ('two-links-same-pair', second),
                                   ('self-link', any(set(ln['left']) & set(ln['right']) for ln in mdesc['links']))) if f]
    # ---- model export -------------------------------------------------------------------------------
    try:
        neo.ingest_model(model, 'bolt://x', 'u', 'p', 'db', delete=True)
    except HarnessError:
        raise
    except Exception as e:
        out.add('ingest-model-raises', f'{type(e).__name__}: {e}')
        return out
    if ('delete_all',) not in STORE['log'] or not any(x[0] == 'commit' for x in STORE['log']):
        out.add('ingest-model:transaction-protocol', str(STORE['log']))
    exp_nodes = sorted((str(int(o.id)), str(o.name), str(o.type)) for o in objs)
    got_nodes = sorted((str(n.get('asset_id')), str(n.get('name')), str(n.get('type'))) for n in STORE['nodes'])
    if got_nodes != exp_nodes:
        out.add('model-export:nodes-differ', f'{got_nodes} != {exp_nodes}')
    for n in STORE['nodes']:
        if sorted(n.labels) != [str(n.get('type'))]:
            out.add('model-export:node-label', f'{sorted(n.labels)} for type {n.get("type")}')
    ids = [int(o.id) for o in objs]
    exp_rels = set()
    for ln in mdesc['links']:
        d = spec['associations'][ln['assoc']]
        for l in ln['left']:
            for r in ln['right']:
                exp_rels.add((str(ids[l]), d['leftField'], str(ids[r])))
                exp_rels.add((str(ids[r]), d['rightField'], str(ids[l])))
    got_rels = [(str(r.start_node.get('asset_id')), _rtype(r), str(r.end_node.get('asset_id'))) for r in STORE['rels']]
    if set(got_rels) != exp_rels:
        out.add('model-export:relationships-differ',
                f'missing {sorted(exp_rels - set(got_rels))[:4]} unexpected {sorted(set(got_rels) - exp_rels)[:4]}')
    elif len(got_rels) != len(exp_rels):
        out.add('model-export:relationship-sent-twice', '')
    # ---- import ----------------------------------------------------------------------------------------
    if not out.discrepancies:
        try:
            from maltoolbox.language import LanguageClassesFactory
            back = neo.get_model('bolt://x', 'u', 'p', 'db', lg, model.lang_classes_factory)
        except HarnessError:
            raise
        except Exception as e:
            back = None
            out.add('import-raises', f'{type(e).__name__}: {e}')
        else:
            if back is None:
                out.add('import-returns-none' + (':two-links-same-pair' if second else ''), '')
        if back is not None:
            p1, p2 = [], []
            sb, so = typed_state(back, spec, p1), typed_state(model, spec, p2)
            ga = {i: (a['name'], a['type']) for i, a in sb['assets'].items()}
            ea = {i: (a['name'], a['type']) for i, a in so['assets'].items()}
            if ga != ea:
                out.add('import:assets-differ', f'{ga} != {ea}')
            if pairwise_links(sb) != pairwise_links(so):
                out.add('import:links-differ', f'{sorted(pairwise_links(sb))} != {sorted(pairwise_links(so))}')
    # ---- attack graph export ------------------------------------------------------------------------------
    STORE['nodes'], STORE['rels'], STORE['log'] = [], [], []
    for i in case.get('ag_removals', []):
        # node ids with gaps (as after pruning): positions in graph.nodes and ids no longer coincide
        if len(g.nodes) > 1:
            try:
                g.remove_node(g.nodes[i % len(g.nodes)])
                out.classes.append('attack-graph-with-id-gaps')
            except Exception as e:
                out.classes.append('skipped:remove_node:' + type(e).__name__)
                return out
    try:
        neo.ingest_attack_graph(g, 'bolt://x', 'u', 'p', 'db', delete=True)
    except HarnessError:
        raise
    except Exception as e:
        out.add('ingest-attack-graph-raises', f'{type(e).__name__}: {e}')
        return out
    exp = {}
    for n in g.nodes:
        exp[n.full_name] = (n.name, n.type, str(n.ttc), str(n.is_necessary), str(n.is_viable),
                            'N/A' if n.defense_status is None else str(n.defense_status))
    got = {}
    for n in STORE['nodes']:
        fn = n.get('full_name')
        if fn in got:
            out.add('attack-graph-export:node-sent-twice', str(fn))
        got[fn] = (n.get('name'), n.get('type'), n.get('ttc'), n.get('is_necessary'), n.get('is_viable'),
                   str(n.get('defense_status')))
    if got != exp:
        bad = [k for k in set(got) | set(exp) if got.get(k) != exp.get(k)]
        out.add('attack-graph-export:nodes-differ', f'{bad[:3]}: {[got.get(k) for k in bad[:3]]} != {[exp.get(k) for k in bad[:3]]}')
    exp_e = {(n.full_name, c.full_name) for n in g.nodes for c in n.children}
    got_e = [(r.start_node.get('full_name'), r.end_node.get('full_name')) for r in STORE['rels']]
    if set(got_e) != exp_e:
        out.add('attack-graph-export:edges-differ',
                f'missing {sorted(exp_e - set(got_e))[:3]} unexpected {sorted(set(got_e) - exp_e)[:3]}')
    elif len(got_e) != len(exp_e):
        out.add('attack-graph-export:edge-sent-twice', '')
    # ---- a second model into the database the attack-graph ingest has just wiped, without delete ----------------
    if objs and not out.discrepancies:
        try:
            from maltoolbox.model import Model
            m2 = Model('second', model.lang_classes_factory)
            exp2 = []
            for k, o in enumerate(reversed(objs)):
                # the same ids as before, given to other assets (other names, possibly other types)
                a2 = getattr(model.lang_classes_factory.ns, str(o.type))(name=f'second {k}')
                m2.add_asset(a2, asset_id=int(objs[k].id))
                exp2.append((str(int(a2.id)), str(a2.name), str(a2.type)))
            neo.ingest_model(m2, 'bolt://x', 'u', 'p', 'db', delete=False)
        except HarnessError:
            raise
        except Exception as e:
            out.add('second-ingest-raises', f'{type(e).__name__}: {e}')
            return out
        got2 = sorted((str(n.get('asset_id')), str(n.get('name')), str(n.get('type')))
                      for n in STORE['nodes'] if n.get('asset_id') is not None)
        if got2 != sorted(exp2):
            out.add('second-ingest:nodes-differ', f'{got2} != {sorted(exp2)}')
        out.classes.append('second-ingest-without-delete')
    return out


@st.composite
def cases(draw):
    c = draw(lang_and_model({'max_assets': 4, 'max_expr_depth': 2, 'arith_ttc': False},
                            {'max_assets': 6, 'attackers': False, 'explicit_ids': True, 'min_assets': 1,
                             'max_links_per_assoc': 3}))
    c['ag_removals'] = draw(st.lists(st.integers(0, 30), max_size=3))
    return c


@st.composite
def corelang_cases(draw):
    from ..modelgen import _restrict, shipped_spec
    pool = draw(corelang_pool(2, 4))
    m = draw(models(_restrict(shipped_spec(), pool), max_assets=5, attackers=False, explicit_ids=True, min_assets=1))
    return {'lang': 'corelang', 'pool': pool, 'model': m, 'ag_removals': draw(st.lists(st.integers(0, 30), max_size=2))}


CLAUSES = [
    Clause('export-import', check_case, kind='random', strategy=cases, budget={'quick': 5000, 'thorough': 120000}),
    Clause('corelang', check_case, kind='random', strategy=corelang_cases, budget={'quick': 240, 'thorough': 9000}),
]
