"""C18 - legacy model loaders agree with the native loader."""
from __future__ import annotations

import json
import os
import zipfile
import xml.etree.ElementTree as ET

from hypothesis import strategies as st

from ..driver import Clause, Outcome
from ..env import worker_tmp
from ..langgen import languages, lang_classes
from ..modelgen import build_language, assoc_class_name, defenses_of, resolve_spec, corelang_pool
from ..modelstate import typed_state, pairwise_links, entry_point_set
from ..ref_lang import Lang

PROPERTY = 'C18'
RULE = ('native model descriptions (G_lang languages; explicit incl. negative ids, non-default defenses, links '
        'between sub-typed assets, duplicate-named association classes, several attackers with several entry '
        'points per asset) emitted by inverse translators written for the harness as (a) the 0.0.39 layout '
        '(metaconcept keys; both association spellings) in JSON and YAML and (b) a securiCAD .sCAD archive '
        '(.eom XML: objects / evidenceAttributes / parameters value, Attacker objects, associations with the '
        'source/target property swap in either orientation, firstSteps entry points). Oracle: differential - the '
        'model loaded by the legacy loader vs. the model Model.load_from_file loads from the equivalent native '
        'file: assets (id, name, type, every defense value), links as a set of (class, field, id, field, id), '
        'entry points as a set of (attacker id, asset id, step) read both from the attributes and from '
        '_to_dict(). Non-trivial: an attacker with >=2 entry points on one asset, or a link between sub-typed '
        'assets or of a duplicate-named class.')
ASSUMPTIONS = ['sCAD cannot express attacker names, multi-member association objects or defenses whose name starts '
               'with an upper-case letter: the emitter domain excludes them (attackers are named Attacker:<id>)',
               'the emitters follow the repository fixture pair example_model.sCAD <-> scad_equivalent_model.yml']


def native_file(case, per_pair=False):
    spec = case['_spec']
    assets = {}
    for a in case['assets']:
        e = {'name': a['name'], 'type': a['type']}
        if a['defenses']:
            e['defenses'] = a['defenses']
        assets[a['id']] = e
    assocs = []
    for ln in case['links']:
        d = spec['associations'][ln['assoc']]
        cls = assoc_class_name(spec, ln['assoc'])
        if per_pair:
            for l in ln['left']:
                for r in ln['right']:
                    assocs.append({cls: {d['leftField']: [l], d['rightField']: [r]}})
        else:
            assocs.append({cls: {d['leftField']: ln['left'], d['rightField']: ln['right']}})
    atts = {}
    for t in case['attackers']:
        atts[t['id']] = {'name': t['name'],
                         'entry_points': {a: {'attack_steps': list(s)} for a, s in t['entry_points']}}
    return {'metadata': {'name': 'm', 'langVersion': '1.0.0', 'langID': 'x'}, 'assets': assets,
            'associations': assocs, 'attackers': atts}


def legacy_0_0_39(case, old_spelling):
    spec = case['_spec']
    assets = {}
    for a in case['assets']:
        e = {'name': a['name'], 'metaconcept': a['type']}
        if a['defenses']:
            e['defenses'] = a['defenses']
        assets[a['id']] = e
    assocs = []
    for ln in case['links']:
        d = spec['associations'][ln['assoc']]
        cls = assoc_class_name(spec, ln['assoc'])
        fields = {d['leftField']: ln['left'], d['rightField']: ln['right']}
        assocs.append(dict({'metaconcept': cls}, **fields) if old_spelling else {'metaconcept': cls, 'association': fields})
    atts = {}
    for t in case['attackers']:
        atts[t['id']] = {'name': t['name'],
                         'entry_points': {a: {'attack_steps': list(s)} for a, s in t['entry_points']}}
    return {'metadata': {'name': 'm'}, 'assets': assets, 'associations': assocs, 'attackers': atts}


def scad_archive(case, path, orient):
    spec = case['_spec']
    L = Lang(spec)
    root = ET.Element('com.foreseeti.kernalCAD_XMIObjectModel')
    for a in case['assets']:
        o = ET.SubElement(root, 'objects', {'description': '', 'id': str(a['id']), 'name': a['name'],
                                            'metaConcept': a['type'], 'template': 'false'})
        for sname, sdef in L.fold(a['type']).items():
            ev = ET.SubElement(o, 'evidenceAttributes', {'metaConcept': sname[0].upper() + sname[1:]})
            if sdef['type'] == 'defense':
                dist = ET.SubElement(ev, 'evidenceDistribution', {'type': 'Bernoulli'})
                p = {'name': 'probability'}
                if sname in a['defenses']:
                    p['value'] = repr(float(a['defenses'][sname]))
                ET.SubElement(dist, 'parameters', p)
        ex = ET.SubElement(o, 'existence', {'type': 'FixedBoolean'})
        ET.SubElement(ex, 'parameters', {'name': 'fixed', 'value': '1.0'})
    for t in case['attackers']:
        o = ET.SubElement(root, 'objects', {'description': '', 'id': str(t['id']), 'name': 'Attacker',
                                            'metaConcept': 'Attacker', 'template': 'false'})
        ET.SubElement(o, 'evidenceAttributes', {'metaConcept': 'EntryPoint'})
    k = 0
    for ln in case['links']:
        d = spec['associations'][ln['assoc']]
        for l in ln['left']:
            for r in ln['right']:
                # l sits in leftField, r in rightField: r.leftField = l and l.rightField = r
                if orient[k % len(orient)]:
                    attrs = {'sourceObject': str(r), 'sourceProperty': d['leftField'],
                             'targetObject': str(l), 'targetProperty': d['rightField']}
                else:
                    attrs = {'sourceObject': str(l), 'sourceProperty': d['rightField'],
                             'targetObject': str(r), 'targetProperty': d['leftField']}
                k += 1
                ET.SubElement(root, 'associations', dict({'description': '', 'id': str(1000 + k)}, **attrs))
    for t in case['attackers']:
        for a, steps in t['entry_points']:
            for s in steps:
                if orient[k % len(orient)]:
                    attrs = {'sourceObject': str(t['id']), 'sourceProperty': 'firstSteps',
                             'targetObject': str(a), 'targetProperty': f'{s}.attacker'}
                else:
                    attrs = {'sourceObject': str(a), 'sourceProperty': f'{s}.attacker',
                             'targetObject': str(t['id']), 'targetProperty': 'firstSteps'}
                k += 1
                ET.SubElement(root, 'associations', dict({'description': '', 'id': str(1000 + k)}, **attrs))
    xml = ET.tostring(root, encoding='unicode')
    with zipfile.ZipFile(path, 'w') as z:
        z.writestr('model.eom', '<?xml version="1.0" encoding="utf-8"?>\n' + xml)
        z.writestr('meta.json', '{}')


def _dict_entry_points(model):
    out = set()
    for tid, t in model._to_dict()['attackers'].items():
        for aid, e in t['entry_points'].items():
            for s in e['attack_steps']:
                out.add((int(tid), int(aid), str(s)))
    return out


def check_case(case) -> Outcome:
    import yaml
    from maltoolbox.model import Model
    from maltoolbox.translators import securicad, updater
    out = Outcome()
    spec = resolve_spec(case)
    if spec is None:
        return out
    case = dict(case, _spec=spec)
    L = Lang(spec)
    enc = ['0.0.39-json', '0.0.39-yaml', 'scad'][case['enc'] % 3]
    out.classes.append('enc:' + enc)
    try:
        lg, cf = build_language(spec)
    except Exception as e:
        out.classes.append('skipped:language:' + type(e).__name__)
        return out
    d = worker_tmp('c18')
    native = native_file(case, per_pair=(enc == 'scad'))
    npath = os.path.join(d, 'native.json')
    with open(npath, 'w') as f:
        json.dump(native, f)
    try:
        ref = Model.load_from_file(npath, cf)
    except Exception as e:
        # the native loader is the reference; if it cannot load the equivalent file C07 reports it
        out.classes.append('skipped:native-loader:' + type(e).__name__)
        return out
    multi_ep = any(len(s) >= 2 for t in case['attackers'] for _, s in t['entry_points'])
    types = {a['id']: a['type'] for a in case['assets']}
    subl = any(any(types[m] != spec['associations'][ln['assoc']]['leftAsset'] for m in ln['left']) or
               any(types[m] != spec['associations'][ln['assoc']]['rightAsset'] for m in ln['right'])
               for ln in case['links'])
    names = [a['name'] for a in spec['associations']]
    dupl = any(names.count(spec['associations'][ln['assoc']]['name']) > 1 for ln in case['links'])
    out.nontrivial = multi_ep or subl or dupl
    out.classes += [c for c, f in (('attacker-with>=2-steps-on-one-asset', multi_ep), ('link-between-subtypes', subl),
                                   ('duplicate-named-class-link', dupl)) if f]
    try:
        if enc == 'scad':
            p = os.path.join(d, 'model.sCAD')
            scad_archive(case, p, case['orient'])
            got = securicad.load_model_from_scad_archive(p, lg, cf)
        else:
            doc = legacy_0_0_39(case, bool(case['orient'][0]))
            if enc.endswith('json'):
                p = os.path.join(d, 'legacy.json')
                with open(p, 'w') as f:
                    json.dump(doc, f)
            else:
                p = os.path.join(d, 'legacy.yml')
                with open(p, 'w') as f:
                    yaml.safe_dump(doc, f, sort_keys=False)
            got = updater.load_model_from_older_version(p, cf, '0.0.39')
    except Exception as e:
        out.add(f'{enc.split("-")[0]}:loader-raises', f'{type(e).__name__}: {e}')
        return out
    if got is None:
        out.add(f'{enc.split("-")[0]}:loader-returns-none', '')
        return out
    tag = enc.split('-')[0]
    pg, pr = [], []
    sg, sr = typed_state(got, spec, pg), typed_state(ref, spec, pr)
    if pg:
        out.add(f'{tag}:loaded-state-malformed', '; '.join(pg))
    if set(sg['assets']) != set(sr['assets']):
        out.add(f'{tag}:asset-ids-differ', f'{sorted(sg["assets"])} != {sorted(sr["assets"])}')
    else:
        for i in sr['assets']:
            for key in ('name', 'type', 'defenses'):
                if sg['assets'][i][key] != sr['assets'][i][key]:
                    out.add(f'{tag}:asset-{key}-differs', f'id {i}: {sg["assets"][i][key]} != {sr["assets"][i][key]}')
    if pairwise_links(sg) != pairwise_links(sr):
        out.add(f'{tag}:links-differ', f'{sorted(pairwise_links(sg))} != {sorted(pairwise_links(sr))}')
    if entry_point_set(sg) != entry_point_set(sr):
        out.add(f'{tag}:entry-points-differ', f'{sorted(entry_point_set(sg))} != {sorted(entry_point_set(sr))}')
    try:
        if _dict_entry_points(got) != _dict_entry_points(ref):
            out.add(f'{tag}:entry-points-differ-in-to_dict',
                    f'{sorted(_dict_entry_points(got))} != {sorted(_dict_entry_points(ref))}')
    except Exception as e:
        out.add(f'{tag}:to_dict-raises', f'{type(e).__name__}: {e}')
    if {k: v['name'] for k, v in sg['attackers'].items()} != {k: v['name'] for k, v in sr['attackers'].items()}:
        out.add(f'{tag}:attackers-differ', '')
    return out


@st.composite
def cases(draw, corelang=False):
    pool = None
    if corelang:
        from ..modelgen import _restrict, shipped_spec
        pool = draw(corelang_pool(2, 4))
        spec = _restrict(shipped_spec(), pool)
    else:
        spec = draw(languages(max_assets=5, min_assets=2, max_expr_depth=1, arith_ttc=False, deep_chains=draw(st.booleans())))
    L = Lang(spec)
    concrete = L.concrete()
    n = draw(st.integers(1, 6))
    ids = draw(st.lists(st.sampled_from([0, 1, 2, 3, 5, 8, -1, -4, 12, -7, 20]), min_size=n, max_size=n, unique=True))
    assets = []
    for i in range(n):
        t = draw(st.sampled_from(concrete))
        dv = {}
        for dn in sorted(defenses_of(L, t)):
            if draw(st.integers(0, 9)) < 4:
                dv[dn] = draw(st.sampled_from([0.0, 1.0, 0.5, 0.25]))
        assets.append({'id': ids[i], 'name': f'asset {i}', 'type': t, 'defenses': dv})
    links = []
    for k, d in enumerate(spec['associations']):
        lefts = [a['id'] for a in assets if L.is_sub(a['type'], d['leftAsset'])]
        rights = [a['id'] for a in assets if L.is_sub(a['type'], d['rightAsset'])]
        if not lefts or not rights:
            continue
        used = set()
        lmax = d['leftMultiplicity']['max'] or 2
        rmax = d['rightMultiplicity']['max'] or 2
        for _ in range(draw(st.integers(0, 2))):
            ls = draw(st.lists(st.sampled_from(lefts), min_size=1, max_size=min(2, lmax), unique=True))
            rs = draw(st.lists(st.sampled_from(rights), min_size=1, max_size=min(2, rmax), unique=True))
            pairs = {(l, r) for l in ls for r in rs}
            if pairs & used:
                continue
            used |= pairs
            links.append({'assoc': k, 'left': ls, 'right': rs})
    enc = draw(st.integers(0, 2))
    if enc == 2:
        # sCAD: one pair per association object, within the maxima
        links = [{'assoc': ln['assoc'], 'left': [l], 'right': [r]} for ln in links for l in ln['left'] for r in ln['right']]
    atts = []
    for j in range(draw(st.integers(0, 2))):
        aid = 100 + j
        eps = []
        for x in draw(st.lists(st.sampled_from(ids), max_size=2, unique=True)):
            t = next(a['type'] for a in assets if a['id'] == x)
            steps = L.step_names(t)
            eps.append([x, draw(st.lists(st.sampled_from(steps), min_size=1, max_size=min(3, len(steps)), unique=True))])
        atts.append({'id': aid, 'name': f'Attacker:{aid}', 'entry_points': eps})
    head = {'lang': 'corelang', 'pool': pool} if corelang else {'spec': spec}
    return dict(head, assets=assets, links=links, attackers=atts, enc=enc,
                orient=draw(st.lists(st.integers(0, 1), min_size=1, max_size=5)))


CLAUSES = [
    Clause('legacy-vs-native', check_case, kind='random', strategy=cases, budget={'quick': 6000, 'thorough': 150000}),
    Clause('corelang', check_case, kind='random', strategy=lambda: cases(corelang=True), budget={'quick': 320, 'thorough': 12000}),
]
