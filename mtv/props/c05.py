"""C05 - the instance model stays coherent under any history of edits."""
from __future__ import annotations

import itertools

from hypothesis import strategies as st

from ..driver import Clause, Outcome
from ..langgen import languages
from ..modelgen import assoc_class_name, build_language, resolve_spec, corelang_pool
from ..ref_lang import Lang
from ..ref_model import RefModel
from .. import tinylang as T

PROPERTY = 'C05'
RULE = ('histories (operation lists) of Model / AttackerAttachment calls with valid and invalid arguments: '
        'add_asset (requested name incl. duplicates, id in {None,0,-1,-2,3,live id,removed id}, '
        'allow_duplicate_names), remove_asset (live / removed / foreign), add_association (single and '
        'multi-member, self links, reflexive associations holding the same assets on both sides, duplicate pair, repeated member, same object again), remove_association, '
        'remove_asset_from_association (1-member field, multi-member field, non-member), add/remove attacker, '
        'add/remove entry point - bounded-exhaustive over a 21-operation alphabet on a tiny language, random '
        'over a tiny fixed language and generated languages. Oracle: abstract reference model (mtv/ref_model.py) '
        'deciding accept / must-raise and the next state; after every step _to_dict(), get_asset_by_id/name, '
        'asset.associations, neighbours of every (asset, field) and attackers must equal the abstraction. '
        'Non-trivial: a removal followed by a later addition, a removal from a multi-member field, an explicit '
        'id 0 / negative / re-used id, a self link, or a rejected operation followed by an observation.')
ASSUMPTIONS = ['how a duplicate name is made unique and which id is assigned automatically are not prescribed',
               'which exception type is raised is not prescribed',
               'associations are only built from assets that are in the model (the API documents nothing else)',
               'attacker ids are not generated colliding (a unit test documents that they may repeat)']

NAMES = ['a', 'b', 'a:1', 'c']
ID_CHOICES = [None, 0, -1, -2, 3, 'live', 'removed']
STEPS = ['access', 'read', 'nosuch']


def tiny_language():
    return T.lang(
        [T.asset('Host', [T.step('access'), T.step('guard', 'defense', ttc=T.fun('Enabled'))]),
         T.asset('Net', [T.step('breach')], parent='Host'),
         T.asset('Data', [T.step('read'), T.step('enc', 'defense', ttc=T.fun('Disabled'))])],
        [T.assoc('Conn', 'Host', 'hosts', 'Data', 'datas'),
         T.assoc('Seq', 'Host', 'prev', 'Host', 'nxt'),
         T.assoc('Dup', 'Host', 'dh', 'Data', 'dd'),
         T.assoc('Dup', 'Data', 'd1', 'Data', 'd2'),
         T.assoc('One', 'Host', 'owner', 'Data', 'owned', lmult=(0, 1))])


TINY = tiny_language()


class Run:
    """Interprets an operation list on the real Model and on the reference in lock step."""

    def __init__(self, spec, out: Outcome):
        from maltoolbox.model import Model
        self.spec = spec
        self.out = out
        self.L = Lang(spec)
        self.lg, self.cf = build_language(spec)
        self.model = Model('m', self.cf)
        self.ref = RefModel(self.L)
        self.aobj = {}      # asset handle -> object
        self.sobj = {}      # assoc handle -> object
        self.tobj = {}      # attacker handle -> object
        self.removed_ids = []
        self.events = set()
        self.rejected_seen = False
        self.concrete = self.L.concrete()
        self.fields = sorted({a['leftField'] for a in spec['associations']} |
                             {a['rightField'] for a in spec['associations']})

    # ------------------------------------------------------------------ helpers
    def _pick(self, seq, i):
        seq = list(seq)
        return seq[i % len(seq)] if seq else None

    def _call(self, kind, verdict, fn):
        """run fn; compare raise / no raise with the reference verdict. -> True if executed OK"""
        try:
            fn()
            raised = None
        except Exception as e:  # the contract is 'raises on invalid input', any exception type
            raised = e
        if verdict is None and raised is not None:
            self.out.add(f'rejected-valid:{kind}', f'{type(raised).__name__}: {raised}')
            return False
        if verdict is not None and raised is None:
            self.out.add(f'accepted-invalid:{kind}:{verdict}', '')
            return True
        if verdict is not None:
            self.rejected_seen = True
            self.events.add('rejected:' + verdict)
        return raised is None

    # ------------------------------------------------------------------ operations
    def op(self, o):
        kind = o[0]
        ref, model = self.ref, self.model
        if kind == 'add_asset':
            _, t, n, idc, allow = o
            typ = self.concrete[t % len(self.concrete)]
            name = None if n < 0 else NAMES[n % len(NAMES)]
            idv = ID_CHOICES[idc % len(ID_CHOICES)]
            if idv == 'live':
                idv = self._pick(sorted(ref.live_ids()), idc // len(ID_CHOICES))
            elif idv == 'removed':
                cands = [i for i in self.removed_ids if i not in ref.live_ids()]
                idv = self._pick(cands, idc // len(ID_CHOICES))
                if idv is not None:
                    self.events.add('id-reused-after-removal')
            if idv is not None and idv <= 0:
                self.events.add('explicit-id<=0')
            verdict = ref.verdict_add_asset(name, idv, allow)
            obj = getattr(self.cf.ns, typ)(**({'name': name} if name is not None else {}))
            dead_names = {a['name'] for a in ref.assets.values() if not a['live']} - ref.live_names()
            if name is not None and name in dead_names:
                self.events.add('name-reused-after-removal')

            def fn():
                if idv is None:
                    model.add_asset(obj, allow_duplicate_names=allow)
                else:
                    model.add_asset(obj, asset_id=idv, allow_duplicate_names=allow)
            if self._call('add_asset', verdict, fn) and verdict is None:
                h = len(ref.assets)
                try:
                    got_id, got_name = int(obj.id), str(obj.name)
                except Exception as e:
                    self.out.add('asset-without-id-or-name', repr(e))
                    return
                if idv is not None and got_id != idv:
                    self.out.add('requested-id-not-honoured', f'requested {idv} got {got_id}')
                if got_id in ref.live_ids():
                    self.out.add('live-ids-not-unique', f'{got_id}')
                if got_name in ref.live_names():
                    self.out.add('live-names-not-unique', f'{got_name!r}')
                elif name is not None and name not in ref.live_names() and got_name != name:
                    self.out.add('free-name-not-kept', f'{name!r} became {got_name!r}')
                if any(not a['live'] for a in ref.assets.values()):
                    self.events.add('add-after-removal')
                ref.add_asset(h, typ, got_name, got_id)
                self.aobj[h] = obj
        elif kind == 'remove_asset':
            r = o[1]
            if r < 0 or not ref.assets:
                obj = getattr(self.cf.ns, self.concrete[0])(name='foreign')
                obj.id = 999
                self._call('remove_asset', 'not-in-model', lambda: model.remove_asset(obj))
                return
            h = r % len(ref.assets)
            if not ref.assets[h]['live']:
                # objects compare by value: a removed asset equals a live one with the same content
                if ref.assets[h]['id'] in ref.live_ids():
                    return
                self._call('remove_asset', 'already-removed', lambda: model.remove_asset(self.aobj[h]))
                return
            if any(len(self.ref.assocs[s][side]) > 1 for s in ref.assocs_of(h) for side in ('left', 'right')
                   if h in self.ref.assocs[s][side]):
                self.events.add('removal-from-multi-member-field')
            if self._call('remove_asset', None, lambda: model.remove_asset(self.aobj[h])):
                self.removed_ids.append(ref.assets[h]['id'])
                ref.remove_asset(h)
                self.events.add('removal')
        elif kind in ('add_assoc', 'add_assoc_reflexive'):
            _, k, ls, rs = o
            if not self.spec['associations']:
                return
            if kind == 'add_assoc_reflexive':
                # an association both of whose ends accept the same assets; the right side re-uses left members
                refl = [i for i, a in enumerate(self.spec['associations'])
                        if self.L.lca(a['leftAsset'], a['rightAsset']) in (a['leftAsset'], a['rightAsset'])]
                if not refl:
                    return
                k = refl[k % len(refl)]
            k = k % len(self.spec['associations'])
            d = self.spec['associations'][k]
            lc = [h for h in ref.live_assets() if self.L.is_sub(ref.assets[h]['type'], d['leftAsset'])]
            rc = [h for h in ref.live_assets() if self.L.is_sub(ref.assets[h]['type'], d['rightAsset'])]
            if not lc or not rc or not ls or not rs:
                return
            left = [lc[i % len(lc)] for i in ls]
            right = [rc[i % len(rc)] for i in rs]
            if kind == 'add_assoc_reflexive':
                both = [h for h in lc if h in rc]
                if not both:
                    return
                left = [both[i % len(both)] for i in ls]
                right = [left[i % len(left)] for i in rs] if rs[0] % 2 == 0 else [both[i % len(both)] for i in rs]
                lm, rm = d['leftMultiplicity']['max'], d['rightMultiplicity']['max']
                left, right = left[:lm or 3], right[:rm or 3]
            verdict = ref.verdict_add_assoc(self.spec, k, left, right)
            if set(left) & set(right):
                self.events.add('self-link')
            box = {}

            def fn():
                a = getattr(self.cf.ns, assoc_class_name(self.spec, k))()
                setattr(a, d['leftField'], [self.aobj[h] for h in left])
                setattr(a, d['rightField'], [self.aobj[h] for h in right])
                box['a'] = a
                model.add_association(a)
            if self._call('add_assoc', verdict, fn) and verdict is None:
                h = len(ref.assocs)
                ref.assocs[h] = {'k': k, 'left': left, 'right': right, 'live': True}
                self.sobj[h] = box['a']
        elif kind == 'readd_assoc':
            live = ref.live_assocs()
            if not live:
                return
            h = live[o[1] % len(live)]
            self._call('add_assoc', 'same-association-object', lambda: model.add_association(self.sobj[h]))
        elif kind == 'remove_assoc':
            if not ref.assocs:
                return
            h = o[1] % len(ref.assocs)
            if not ref.assocs[h]['live']:
                # objects compare by value: skip when an equal live association may exist
                if any(ref.assocs[g]['k'] == ref.assocs[h]['k'] for g in ref.live_assocs()):
                    return
                self._call('remove_assoc', 'already-removed', lambda: model.remove_association(self.sobj[h]))
                return
            if self._call('remove_assoc', None, lambda: model.remove_association(self.sobj[h])):
                ref.remove_assoc(h)
                self.events.add('removal')
        elif kind == 'remove_from_assoc':
            la, ls = ref.live_assets(), ref.live_assocs()
            if not la or not ls:
                return
            h = ls[o[2] % len(ls)]
            members = ref.assocs[h]['left'] + ref.assocs[h]['right']
            x = members[o[1] % len(members)] if o[1] % 4 else la[o[1] % len(la)]
            a = ref.assocs[h]
            if x not in a['left'] and x not in a['right']:
                self._call('remove_from_assoc', 'not-a-member',
                           lambda: model.remove_asset_from_association(self.aobj[x], self.sobj[h]))
                return
            if any(x in a[s] and len(a[s]) > 1 for s in ('left', 'right')):
                self.events.add('removal-from-multi-member-field')
            if self._call('remove_from_assoc', None,
                          lambda: model.remove_asset_from_association(self.aobj[x], self.sobj[h])):
                ref.remove_from_assoc(x, h)
                self.events.add('removal')
        elif kind == 'add_attacker':
            from maltoolbox.model import AttackerAttachment
            idv = [None, 50, 51, 1, 0][o[1] % 5]     # also ids below the ids already handed out
            if idv is not None and any(t['id'] == idv for t in ref.attackers.values() if t['live']):
                return
            att = AttackerAttachment()
            att.entry_points = []
            if o[1] % 2:
                att.name = f'Att{len(ref.attackers)}'

            def fn():
                if idv is None:
                    model.add_attacker(att)
                else:
                    model.add_attacker(att, attacker_id=idv)
            if self._call('add_attacker', None, fn):
                if idv is not None and att.id != idv:
                    self.out.add('attacker-id-not-honoured', f'{idv} -> {att.id}')
                if any(t['id'] == att.id for t in ref.attackers.values() if t['live']):
                    return self.out.add('attacker-ids-collide', str(att.id))
                h = len(ref.attackers)
                ref.attackers[h] = {'id': att.id, 'name': att.name, 'eps': [], 'live': True}
                self.tobj[h] = att
        elif kind == 'remove_attacker':
            live = ref.live_attackers()
            if not live:
                return
            h = live[o[1] % len(live)]
            if self._call('remove_attacker', None, lambda: model.remove_attacker(self.tobj[h])):
                ref.attackers[h]['live'] = False
        elif kind in ('add_ep', 'remove_ep'):
            live, la = ref.live_attackers(), ref.live_assets()
            if not live or not la:
                return
            h = live[o[1] % len(live)]
            x = la[o[2] % len(la)]
            s = STEPS[o[3] % len(STEPS)]
            eps = ref.attackers[h]['eps']
            cur = next((ep for ep in eps if ep[0] == x), None)
            if kind == 'add_ep':
                if self._call('add_ep', None, lambda: self.tobj[h].add_entry_point(self.aobj[x], s)):
                    if cur is None:
                        eps.append([x, [s]])
                    elif s not in cur[1]:
                        cur[1].append(s)
            else:
                if self._call('remove_ep', None, lambda: self.tobj[h].remove_entry_point(self.aobj[x], s)):
                    if cur is not None and s in cur[1]:
                        cur[1].remove(s)
                        if not cur[1]:
                            eps.remove(cur)
        else:
            raise ValueError(kind)

    # ------------------------------------------------------------------ observation
    def observe(self, after):
        ref, model, out = self.ref, self.model, self.out
        try:
            d = model._to_dict()
        except Exception as e:
            out.add('to_dict-raises', f'after {after}: {type(e).__name__}: {e}')
            return
        exp_assets = {ref.assets[h]['id']: (ref.assets[h]['name'], ref.assets[h]['type'])
                      for h in ref.live_assets()}
        got_assets = {int(k): (str(v['name']), str(v['type'])) for k, v in d['assets'].items()}
        if got_assets != exp_assets or len(d['assets']) != len(ref.live_assets()):
            out.add('assets-differ', f'after {after}: got {got_assets} expected {exp_assets}')
        if len(list(model.assets)) != len(ref.live_assets()):
            out.add('asset-list-length', f'after {after}')
        idof = lambda h: ref.assets[h]['id']
        exp_assocs = sorted((assoc_class_name(self.spec, ref.assocs[h]['k']),
                             self.spec['associations'][ref.assocs[h]['k']]['leftField'],
                             tuple(sorted(idof(m) for m in ref.assocs[h]['left'])),
                             self.spec['associations'][ref.assocs[h]['k']]['rightField'],
                             tuple(sorted(idof(m) for m in ref.assocs[h]['right'])))
                            for h in ref.live_assocs())
        got_assocs = []
        try:
            for entry in d['associations']:
                cls = [k for k in entry if k != 'extras'][0]
                fields = entry[cls]
                item = [cls]
                by_field = {str(f): tuple(sorted(int(i) for i in ids)) for f, ids in fields.items()}
                dd = next((a for k, a in enumerate(self.spec['associations'])
                           if assoc_class_name(self.spec, k) == cls), None)
                item += [dd['leftField'], by_field.get(dd['leftField']), dd['rightField'],
                         by_field.get(dd['rightField'])]
                got_assocs.append(tuple(item))
        except Exception as e:
            out.add('associations-unreadable', f'{type(e).__name__}: {e}')
        if sorted(got_assocs) != exp_assocs:
            out.add('associations-differ', f'after {after}: got {sorted(got_assocs)} expected {exp_assocs}')
        exp_att = {ref.attackers[h]['id']: (ref.attackers[h]['name'],
                                            {idof(x): list(s) for x, s in ref.attackers[h]['eps']})
                   for h in ref.live_attackers()}
        try:
            got_att = {k: (v['name'], {int(a): list(e['attack_steps']) for a, e in v['entry_points'].items()})
                       for k, v in d['attackers'].items()}
        except Exception as e:
            got_att = f'unreadable {e}'
        if got_att != exp_att:
            out.add('attackers-differ', f'after {after}: got {got_att} expected {exp_att}')
        # lookups for the whole universe
        live_ids = ref.live_ids()
        for h, a in ref.assets.items():
            byid = model.get_asset_by_id(a['id'])
            if a['live']:
                if byid is not self.aobj[h]:
                    out.add('lookup-by-id:live', f'after {after}: id {a["id"]}')
                if model.get_asset_by_name(a['name']) is not self.aobj[h]:
                    out.add('lookup-by-name:live', f'after {after}: {a["name"]!r}')
            else:
                if a['id'] not in live_ids and byid is not None:
                    out.add('lookup-by-id:removed', f'after {after}: id {a["id"]}')
                if a['name'] not in ref.live_names() and model.get_asset_by_name(a['name']) is not None:
                    out.add('lookup-by-name:removed', f'after {after}: {a["name"]!r}')
        # back references and neighbours
        sid = {id(o): h for h, o in self.sobj.items()}
        for x in ref.live_assets():
            obj = self.aobj[x]
            try:
                got = {sid.get(id(s), -1) for s in list(obj.associations)}
            except Exception as e:
                out.add('asset-associations-unreadable', repr(e))
                continue
            exp = ref.assocs_of(x)
            if got != exp:
                out.add('back-references-differ',
                        f'after {after}: asset {ref.assets[x]["name"]!r} lists {sorted(got)} expected {sorted(exp)}')
            for f in self.fields:
                expn = {idof(y) for y in ref.neighbours(x, f)}
                try:
                    gotn = {int(y.id) for y in model.get_associated_assets_by_field_name(obj, f)}
                except Exception as e:
                    out.add('neighbours-raise', f'{type(e).__name__}: {e}')
                    continue
                if gotn != expn:
                    out.add('neighbours-differ',
                            f'after {after}: {ref.assets[x]["name"]!r}.{f} = {sorted(gotn)} expected {sorted(expn)}')


def check_case(case) -> Outcome:
    out = Outcome()
    spec = resolve_spec(case) if case.get('lang') else (TINY if case.get('spec') is None else case['spec'])
    if spec is None:
        return out
    try:
        run = Run(spec, out)
    except Exception as e:
        out.add('language-rejected', f'{type(e).__name__}: {e}')
        return out
    observed_after_reject = False
    for o in case['ops']:
        run.op(list(o))
        if out.discrepancies:
            break
        run.observe(o)
        if run.rejected_seen:
            observed_after_reject = True
        if out.discrepancies:
            break
    ev = run.events
    out.classes += sorted(ev)
    out.nontrivial = bool({'add-after-removal', 'removal-from-multi-member-field', 'explicit-id<=0',
                           'id-reused-after-removal', 'self-link'} & ev) or observed_after_reject
    return out


# ---------------------------------------------------------------------------------------------
ALPHABET = [
    ['add_asset', 0, 0, 0, True],        # Host 'a'
    ['add_asset', 1, 0, 0, True],        # Net 'a' (duplicate name when after the first)
    ['add_asset', 2, 1, 1, True],        # Data 'b' id 0
    ['add_asset', 0, 3, 2, False],       # Host 'c' id -1, duplicates not allowed
    ['add_asset', 2, 0, 0, False],       # Data 'a', duplicates not allowed
    ['add_asset', 0, 1, 6, True],        # Host 'b' with the id of a removed asset
    ['add_asset', 0, 0, 4, False],       # Host 'a' id 3, duplicates not allowed
    ['add_asset', 0, 1, 4, True],        # Host 'b' id 3
    ['add_asset', 0, 2, 0, True],        # Host 'a:1' (the name an automatic rename produces)
    ['remove_asset', 0],
    ['remove_asset', 1],
    ['add_assoc', 1, [0], [1]],          # Seq between hosts (self link when only one host)
    ['add_assoc', 0, [0, 1], [0]],       # Conn multi-member
    ['add_assoc', 1, [0, 1], [0, 1]],    # Seq with the same hosts on both sides
    ['add_assoc_reflexive', 0, [0], [0]],   # first host linked to itself
    ['add_assoc_reflexive', 0, [1], [0]],   # second host linked to itself
    ['remove_from_assoc', 1, 0],
    ['remove_assoc', 0],
    ['add_attacker', 0],
    ['add_attacker', 3],                 # attacker with the explicit id 1
    ['add_ep', 0, 0, 0],
]


def _enum(tier):
    n = 3 if tier == 'quick' else 4
    for ln in range(1, n + 1):
        for seq in itertools.product(range(len(ALPHABET)), repeat=ln):
            yield {'spec': None, 'ops': [ALPHABET[i] for i in seq]}


PREFIX = [['add_asset', 0, 0, 0, True], ['add_asset', 0, 1, 0, True], ['add_asset', 2, 3, 0, True]]


def _enum_populated(tier):
    """the same alphabet, starting from a model that already holds two hosts and a data asset"""
    for ln in range(1, 3 if tier == 'quick' else 4):
        for seq in itertools.product(range(len(ALPHABET)), repeat=ln):
            yield {'spec': None, 'ops': PREFIX + [ALPHABET[i] for i in seq]}


PREFIX_SELF = [['add_asset', 0, -1, 0, True], ['add_asset', 0, 0, 0, True],
               ['add_assoc_reflexive', 0, [0], [0]], ['add_assoc_reflexive', 0, [1], [0]]]


def _enum_self_linked(tier):
    """the same alphabet, starting from two hosts (one of them unnamed) that are each linked to themselves"""
    for ln in range(1, 3 if tier == 'quick' else 4):
        for seq in itertools.product(range(len(ALPHABET)), repeat=ln):
            yield {'spec': None, 'ops': PREFIX_SELF + [ALPHABET[i] for i in seq]}


PREFIX_LINKED = PREFIX + [['add_assoc', 0, [0, 1], [0]], ['add_assoc', 1, [0], [1]], ['add_assoc', 1, [1], [0]]]


def _enum_linked(tier):
    """the same alphabet, starting from two hosts that share one side of a multi-member association (listed first
    by both) and are also linked to each other by two further associations: removing either host has to walk a
    list of associations of which the first survives the removal"""
    for ln in range(1, 3 if tier == 'quick' else 4):
        for seq in itertools.product(range(len(ALPHABET)), repeat=ln):
            yield {'spec': None, 'ops': PREFIX_LINKED + [ALPHABET[i] for i in seq]}


def _op_strategy():
    i = st.integers
    small = st.integers(0, 5)
    return st.one_of(
        st.tuples(st.just('add_asset'), small, st.integers(-1, 3), st.integers(0, 20), st.booleans()),
        st.tuples(st.just('add_asset'), small, st.integers(-1, 3), st.just(0), st.just(True)),
        st.tuples(st.just('remove_asset'), st.integers(-1, 7)),
        st.tuples(st.just('add_assoc'), small, st.lists(small, min_size=1, max_size=3),
                  st.lists(small, min_size=1, max_size=3)),
        st.tuples(st.just('add_assoc'), small, st.lists(small, min_size=1, max_size=1),
                  st.lists(small, min_size=1, max_size=1)),
        st.tuples(st.just('add_assoc_reflexive'), small, st.lists(small, min_size=1, max_size=3),
                  st.lists(small, min_size=1, max_size=3)),
        st.tuples(st.just('add_assoc_reflexive'), small, st.lists(small, min_size=2, max_size=3, unique=True),
                  st.lists(st.integers(0, 2).map(lambda x: 2 * x), min_size=1, max_size=2, unique=True)),
        st.tuples(st.just('remove_from_assoc'), st.integers(1, 11), small),
        st.tuples(st.just('readd_assoc'), small),
        st.tuples(st.just('remove_assoc'), small),
        st.tuples(st.just('remove_from_assoc'), st.integers(0, 11), small),
        st.tuples(st.just('add_attacker'), st.integers(0, 9)),
        st.tuples(st.just('remove_attacker'), small),
        st.tuples(st.just('add_ep'), small, small, st.integers(0, 2)),
        st.tuples(st.just('remove_ep'), small, small, st.integers(0, 2)),
    ).map(list)


@st.composite
def tiny_histories(draw, max_ops=25):
    return {'spec': None, 'ops': draw(st.lists(_op_strategy(), min_size=1, max_size=max_ops))}


@st.composite
def lang_histories(draw, max_ops=25):
    spec = draw(languages(max_assets=4, max_expr_depth=1, arith_ttc=False))
    return {'spec': spec, 'ops': draw(st.lists(_op_strategy(), min_size=1, max_size=max_ops))}


@st.composite
def corelang_histories(draw, max_ops=20):
    return {'lang': 'corelang', 'pool': draw(corelang_pool(2, 3)),
            'ops': draw(st.lists(_op_strategy(), min_size=1, max_size=max_ops))}


CLAUSES = [
    Clause('short-histories-exhaustive', check_case, kind='exhaustive', enumerate=_enum,
           space='all operation sequences of length <=3 (quick) / <=4 (thorough) over a 21-operation alphabet on the tiny language'),
    Clause('short-histories-from-populated-model', check_case, kind='exhaustive', enumerate=_enum_populated,
           space='all operation sequences of length <=2 (quick) / <=3 (thorough) over the same alphabet, applied to a model that already holds two hosts and a data asset'),
    Clause('short-histories-from-self-linked-model', check_case, kind='exhaustive', enumerate=_enum_self_linked,
           space='all operation sequences of length <=2 (quick) / <=3 (thorough) over the same alphabet, applied to two hosts that are each linked to themselves'),
    Clause('short-histories-from-linked-model', check_case, kind='exhaustive', enumerate=_enum_linked,
           space='all operation sequences of length <=2 (quick) / <=3 (thorough) over the same alphabet, applied to two hosts sharing a side of a multi-member association and linked to each other twice more'),
    Clause('tiny-language-histories', check_case, kind='random', strategy=lambda: tiny_histories(25),
           budget={'quick': 3000, 'thorough': 90000}),
    Clause('generated-language-histories', check_case, kind='random', strategy=lambda: lang_histories(25),
           budget={'quick': 1500, 'thorough': 36000}),
    Clause('corelang-histories', check_case, kind='random', strategy=lambda: corelang_histories(20),
           budget={'quick': 320, 'thorough': 12000}),
    Clause('long-histories', check_case, kind='random', strategy=lambda: tiny_histories(40),
           budget={'quick': 0, 'thorough': 18000}),
]
