"""C14 - a deep copy of an attack graph is equal and fully independent."""
from __future__ import annotations

import copy

from hypothesis import strategies as st

from ..driver import Clause, Outcome
from .. import aggen
from ..aggen import snapshot, structural_problems
from ..modelgen import lang_and_model

PROPERTY = 'C14'
RULE = ('attack graphs with attackers, analysis labels, tags, extras and dict-valued TTCs (hand-built and '
        'generated from G_lang x G_model with attached attackers) x mutation sequences applied after copying, to '
        'the copy or to the original: compromise / undo, remove_node, add_node, set an extras key, append a tag, '
        'change a value inside a TTC dict, analysis, prune, remove_attacker. Oracle: equality - same typed '
        'snapshot, lookups for every id / name, counters; structural independence - model and language are the '
        'same objects, no node / attacker / children / parents / compromised_by / tags / extras / TTC container '
        'of the copy is (by identity) part of the original, all references inside the copy stay inside the copy; '
        'behavioural independence - after every mutation of one graph the other graph\'s snapshot is unchanged. '
        'Non-trivial: an attacker, a node with a dict TTC and tags, and >=2 mutations on different sides.')
ASSUMPTIONS = ['the language-level step definition attached to generated nodes (node.attributes) is language data, not per-node data']


def _nested(v, kind, where, out, depth=0):
    if isinstance(v, (list, dict)) and depth < 6:
        out[id(v)] = (kind, where)
        for x in (v.values() if isinstance(v, dict) else v):
            _nested(x, kind, where, out, depth + 1)


def _containers(g):
    out = {}
    for n in g.nodes:
        out[id(n)] = ('node', n.full_name)
        for nm in ('children', 'parents', 'compromised_by'):
            v = getattr(n, nm)
            if isinstance(v, (list, dict)):
                out[id(v)] = (nm, n.full_name)
        for nm in ('tags', 'extras', 'ttc'):
            _nested(getattr(n, nm), nm, n.full_name, out)   # including containers nested inside
    for a in g.attackers:
        out[id(a)] = ('attacker', a.name)
        out[id(a.entry_points)] = ('entry_points', a.name)
        out[id(a.reached_attack_steps)] = ('reached', a.name)
    return out


def check_case(case) -> Outcome:
    from maltoolbox.attackgraph import AttackGraphNode
    from maltoolbox.attackgraph.analyzers import apriori
    out = Outcome()
    if case['start'] == 'ag':
        g, _, _ = aggen.build(case['graph'])
    else:
        from .c01 import generate_graph
        lg, model, objs, g, err, msg = generate_graph(case['spec'], case['model'])
        if err:
            out.classes.append('skipped:' + err)
            return out
        try:
            g.attach_attackers()
            if case.get('analyse'):
                apriori.calculate_viability_and_necessity(g)
        except Exception as e:
            out.add('preparation-raises', f'{type(e).__name__}: {e}')
            return out
    for j, i in case.get('pre_compromises', []):
        # compromises before the copy, in an order that need not follow the attacker order
        if g.attackers and g.nodes:
            g.attackers[j % len(g.attackers)].compromise(g.nodes[i % len(g.nodes)])
    for i in case.get('pre_removals', []):
        # removals before the copy (the id counter is then ahead of the highest live id)
        if len(g.nodes) > 1:
            try:
                g.remove_node(g.nodes[i % len(g.nodes)])
            except Exception as e:
                out.add('preparation-raises', f'{type(e).__name__}: {e}')
                return out
    base = snapshot(g)
    try:
        c = copy.deepcopy(g)
    except Exception as e:
        out.add('deepcopy-raises', f'{type(e).__name__}: {e}')
        return out
    has_att = bool(g.attackers)
    has_ttc_tags = any(isinstance(n.ttc, dict) and n.tags for n in g.nodes)
    # ---- equality ---------------------------------------------------------------------------------
    if snapshot(c) != base:
        out.add('copy-differs-from-original', '')
    try:
        if c._to_dict() != g._to_dict():
            out.add('copy-serialises-differently', '')
    except Exception as e:
        out.add('copy-serialisation-raises', f'{type(e).__name__}: {e}')
    if snapshot(g) != base:
        out.add('deepcopy-changed-the-original', '')
    for attr in ('next_node_id', 'next_attacker_id'):
        if hasattr(g, attr) and getattr(g, attr) != getattr(c, attr, None):
            out.add('copy-counter-differs', attr)
    # counters as observed by the next add_node on both graphs (the probe nodes are removed again)
    try:
        from maltoolbox.attackgraph import AttackGraphNode as _N
        n1, n2 = _N(type='or', name='probe'), _N(type='or', name='probe')
        g.add_node(n1)
        c.add_node(n2)
        if n1.id != n2.id:
            out.add('copy-assigns-different-next-id', f'{n1.id} != {n2.id}')
        for sig, msg in structural_problems(c):
            out.add('copy-after-add_node:' + sig, msg)
        g.remove_node(n1)
        c.remove_node(n2)
    except Exception as e:
        out.add('copy-add_node-raises', f'{type(e).__name__}: {e}')
    for n in g.nodes:
        m = c.get_node_by_id(n.id)
        if m is None or m.full_name != n.full_name or c.get_node_by_full_name(n.full_name) is not m:
            out.add('copy-lookup-differs', n.full_name)
            break
    for a in g.attackers:
        if c.get_attacker_by_id(a.id) is None or c.get_attacker_by_id(a.id).name != a.name:
            out.add('copy-attacker-lookup-differs', a.name)
    for sig, msg in structural_problems(c):
        out.add('copy:' + sig, msg)
    # ---- structural independence ------------------------------------------------------------------
    if c.model is not g.model or getattr(c, 'lang_graph', None) is not getattr(g, 'lang_graph', None):
        out.add('model-or-language-not-shared', '')
    orig = _containers(g)
    for k, (kind, where) in _containers(c).items():
        if k in orig:
            out.add(f'shared-{kind}', f'{where} shares its {kind} with the original')
    cn = {id(n) for n in c.nodes}
    ca = {id(a) for a in c.attackers}
    for n in c.nodes:
        if any(id(x) not in cn for x in list(n.children) + list(n.parents)):
            out.add('copy-references-outside:edges', n.full_name)
        if any(id(a) not in ca for a in n.compromised_by):
            out.add('copy-references-outside:compromised_by', n.full_name)
        if c.get_node_by_id(n.id) is not n:
            out.add('copy-index-points-outside', n.full_name)
    for a in c.attackers:
        if any(id(x) not in cn for x in list(a.entry_points) + list(a.reached_attack_steps)):
            out.add('copy-references-outside:attacker', a.name)
    if out.discrepancies:
        return out
    # ---- behavioural independence -------------------------------------------------------------------
    sides = set()
    n_mut = 0
    for o in case['mutations']:
        o = list(o)
        side, k = o[0] % 2, o[1]
        tgt, other = (c, g) if side == 0 else (g, c)
        before = snapshot(other)
        nodes, atts = list(tgt.nodes), list(tgt.attackers)
        try:
            if k == 'compromise' and nodes and atts:
                atts[o[2] % len(atts)].compromise(nodes[o[3] % len(nodes)])
            elif k == 'undo' and nodes and atts:
                atts[o[2] % len(atts)].undo_compromise(nodes[o[3] % len(nodes)])
            elif k == 'remove_node' and nodes:
                tgt.remove_node(nodes[o[2] % len(nodes)])
            elif k == 'add_node':
                tgt.add_node(AttackGraphNode(type='or', name=f'added{n_mut}'))
            elif k == 'extras' and nodes:
                nodes[o[2] % len(nodes)].extras['changed'] = n_mut
            elif k == 'tag' and nodes:
                nodes[o[2] % len(nodes)].tags.append('added')
            elif k == 'ttc' and nodes:
                cands = [n for n in nodes if isinstance(n.ttc, dict)]
                if cands:
                    cands[o[2] % len(cands)].ttc['name'] = 'Changed'
            elif k == 'ttc-nested' and nodes:
                cands = [n for n in nodes if isinstance(n.ttc, dict) and isinstance(n.ttc.get('arguments'), list)]
                if cands:
                    cands[o[2] % len(cands)].ttc['arguments'].append(9.0)
            elif k == 'extras-nested' and nodes:
                cands = [n for n in nodes if any(isinstance(v, (dict, list)) for v in n.extras.values())]
                if cands:
                    n_ = cands[o[2] % len(cands)]
                    for v in n_.extras.values():
                        if isinstance(v, dict):
                            v['nested-change'] = n_mut
                        elif isinstance(v, list):
                            v.append(n_mut)
            elif k == 'analyse':
                apriori.calculate_viability_and_necessity(tgt)
            elif k == 'prune':
                apriori.prune_unviable_and_unnecessary_nodes(tgt)
            elif k == 'remove_attacker' and atts:
                tgt.remove_attacker(atts[o[2] % len(atts)])
            else:
                continue
        except Exception as e:
            out.add(f'mutation-raises:{k}', f'{type(e).__name__}: {e}')
            break
        n_mut += 1
        sides.add(side)
        if snapshot(other) != before:
            out.add(f'mutation-visible-in-other-graph:{k}', f'{"copy" if side == 0 else "original"} mutated')
            break
    out.nontrivial = has_att and has_ttc_tags and n_mut >= 2 and len(sides) == 2
    out.classes += [c_ for c_, f in (('attacker', has_att), ('dict-ttc+tags', has_ttc_tags), ('both-sides', len(sides) == 2)) if f]
    return out


def _mutations(n):
    small = st.integers(0, 15)
    kinds = ['compromise', 'undo', 'remove_node', 'add_node', 'extras', 'tag', 'ttc', 'ttc-nested', 'extras-nested',
             'analyse', 'prune', 'remove_attacker']
    return st.lists(st.tuples(st.integers(0, 1), st.sampled_from(kinds), small, small).map(list), max_size=n)


@st.composite
def ag_cases(draw):
    g = draw(aggen.graphs(max_nodes=8, min_nodes=1, labels=draw(st.booleans()), attackers=2, extras=True))
    return {'start': 'ag', 'graph': g, 'mutations': draw(_mutations(8)),
            'pre_compromises': draw(st.lists(st.tuples(st.integers(0, 3), st.integers(0, 7)).map(list), max_size=4)),
            'pre_removals': draw(st.lists(st.integers(0, 7), max_size=2))}


@st.composite
def gen_cases(draw):
    c = draw(lang_and_model({'max_assets': 4, 'max_expr_depth': 2},
                            {'max_assets': 4, 'attackers': True, 'min_assets': 1}))
    return {'start': 'gen', 'spec': c['spec'], 'model': c['model'], 'analyse': draw(st.booleans()),
            'mutations': draw(_mutations(8)),
            'pre_compromises': draw(st.lists(st.tuples(st.integers(0, 3), st.integers(0, 7)).map(list), max_size=4)),
            'pre_removals': draw(st.lists(st.integers(0, 7), max_size=2))}


CLAUSES = [
    Clause('hand-built-graphs', check_case, kind='random', strategy=ag_cases, budget={'quick': 5000, 'thorough': 120000}),
    Clause('generated-graphs', check_case, kind='random', strategy=gen_cases, budget={'quick': 2500, 'thorough': 60000}),
]
