"""C10 - saving and loading an attack graph preserves it."""
from __future__ import annotations

import os

from hypothesis import strategies as st

from ..driver import Clause, Outcome
from ..env import worker_tmp
from ..aggen import snapshot
from ..modelgen import lang_and_model, build_language, build_model

PROPERTY = 'C10'
RULE = ('attack graphs produced by short histories (generate from G_lang x G_model, asset names also duplicate / containing colons -> optional '
        'attach_attackers -> extra attackers incl. two sharing a name, explicit ids incl. 0 and entry points outside the reached steps -> compromises -> undo of some compromises (also of entry points) -> '
        'optional analysis -> optional prune -> extras on random nodes) x {json, yml} x {model given, model '
        'absent}. Oracle: typed comparison of the loaded graph with the original through attributes: per node '
        'id, name, type, TTC, defense status (float), existence status, viability, necessity (bool), MITRE '
        'info, tags (list of str), extras, edge sets by id; per attacker id, name, entry points, reached steps; '
        'with the model given node.asset must be the model asset of the same name - also in a second save / load after an asset of the model was replaced by a new asset of the same name. Non-trivial: a node with '
        'tags, a False label or a pruned node, and an attacker with >=2 reached steps.')
ASSUMPTIONS = ['compared through attributes, not through the all-strings dictionary form']

EXTRAS = [{'reward': 1}, {'pos': {'x': 1.5}}, {'note': 'yes'}]


def check_case(case) -> Outcome:
    from maltoolbox.attackgraph import AttackGraph, Attacker
    from maltoolbox.attackgraph.analyzers import apriori
    out = Outcome()
    from .c01 import generate_graph
    lg, model, objs, g, err, msg = generate_graph(case['spec'], case['model'])
    if err:     # not this property's business (C01 / C15 report it)
        out.classes.append('skipped:' + err)
        return out
    try:
        if case['attach']:
            g.attach_attackers()
        for k, a in enumerate(case['extra_attackers']):
            ns = list(g.nodes)
            if not ns:
                break
            att = Attacker(name=a['name'], entry_points=[], reached_attack_steps=[])
            reached = sorted({ns[i % len(ns)].id for i in a['reached']})
            kw = {}
            if a['id'] is not None and g.get_attacker_by_id(a['id']) is None:
                kw['attacker_id'] = a['id']
            entries = reached[:a['n_entry']]
            if a.get('entry') is not None:      # entry points need not be among the reached steps
                entries = sorted({ns[i % len(ns)].id for i in a['entry']})
            g.add_attacker(att, entry_points=entries, reached_attack_steps=reached, **kw)
        for j, i in case['compromises']:
            if g.attackers and g.nodes:
                g.attackers[j % len(g.attackers)].compromise(g.nodes[i % len(g.nodes)])
        for j, i in case.get('undos', []):
            # undo a compromise of one of the attacker's reached steps (possibly an entry point)
            if g.attackers:
                a_ = g.attackers[j % len(g.attackers)]
                if a_.reached_attack_steps:
                    a_.undo_compromise(a_.reached_attack_steps[i % len(a_.reached_attack_steps)])
        if case['analyse']:
            apriori.calculate_viability_and_necessity(g)
        n_before = len(g.nodes)
        if case['prune']:
            apriori.prune_unviable_and_unnecessary_nodes(g)
        pruned = len(g.nodes) < n_before
        for i, ex in case['node_extras']:
            if g.nodes:
                g.nodes[i % len(g.nodes)].extras = dict(ex)
    except Exception as e:
        out.add('construction-raises', f'{type(e).__name__}: {e}')
        return out
    orig = snapshot(g)
    has_tags = any(n['tags'] for n in orig['nodes'].values())
    has_false = any(not n['is_viable'] or not n['is_necessary'] for n in orig['nodes'].values())
    multi = any(len(a['reached']) >= 2 for a in orig['attackers'].values())
    names = [a['name'] for a in orig['attackers'].values()]
    out.classes += [c for c, f in (('tags', has_tags), ('false-label', has_false), ('pruned', pruned),
                                   ('attacker-with>=2-reached', multi),
                                   ('attackers-share-name', len(set(names)) < len(names)),
                                   ('attacker-id-0', 0 in orig['attackers']),
                                   ('extras', any(n['extras'] for n in orig['nodes'].values()))) if f]
    out.nontrivial = has_tags and (has_false or pruned) and multi
    fmt = ['json', 'yml'][case['fmt'] % 2]
    with_model = bool(case['with_model'])
    out.classes.append(f'fmt:{fmt}:' + ('model' if with_model else 'nomodel'))
    p = os.path.join(worker_tmp('c10'), 'g.' + fmt)
    try:
        g.save_to_file(p)
    except Exception as e:
        out.add('save-raises', f'{type(e).__name__}: {e}')
        return out
    try:
        loaded = AttackGraph.load_from_file(p, model=model if with_model else None)
    except Exception as e:
        out.add('load-raises', f'{type(e).__name__}: {e}')
        return out
    got = snapshot(loaded)
    if set(got['nodes']) != set(orig['nodes']):
        out.add('node-ids-differ', f'{sorted(got["nodes"])} != {sorted(orig["nodes"])}')
    else:
        for i, exp in orig['nodes'].items():
            gn = got['nodes'][i]
            for key in ('name', 'type', 'ttc', 'defense_status', 'existence_status', 'is_viable',
                        'is_necessary', 'mitre_info', 'tags', 'extras', 'children', 'parents',
                        'compromised_by'):
                a, b = gn[key], exp[key]
                if key in ('children', 'parents'):
                    a, b = sorted(set(a)), sorted(set(b))   # the same edges: multiplicity is not claimed
                if a != b or type(a) is not type(b):
                    out.add(f'node-{key}-differs', f'node {i}: {gn[key]!r} != {exp[key]!r}')
                    break
            if with_model:
                if gn['asset'] != exp['asset'] or gn['full_name'] != exp['full_name']:
                    out.add('node-asset-differs', f'node {i}: {gn["asset"]!r} != {exp["asset"]!r}')
    if with_model and not out.discrepancies:
        for n in loaded.nodes:
            if n.asset is None or n.asset is not model.get_asset_by_name(str(n.asset.name)):
                out.add('node-not-bound-to-model-asset', n.full_name)
                break
    if got['attackers'] != orig['attackers']:
        out.add('attackers-differ', f'{got["attackers"]} != {orig["attackers"]}')
    # ---- loading again after the first loaded graph was changed must give the original again ------------------
    if not out.discrepancies:
        try:
            for n in loaded.nodes:
                n.extras['changed-after-load'] = 1
                n.tags.append('changed-after-load')
            again = snapshot(AttackGraph.load_from_file(p, model=model if with_model else None))
            for i, exp in orig['nodes'].items():
                if again['nodes'][i]['tags'] != exp['tags'] or again['nodes'][i]['extras'] != exp['extras']:
                    out.add('second-load-sees-changes-made-to-the-first-loaded-graph', f'node {i}')
                    break
        except Exception as e:
            out.add('second-load-raises', f'{type(e).__name__}: {e}')
    # ---- second round: replace an asset of the model by a new one with the same name, regenerate, reload ----
    if with_model and case.get('second_round') and objs and not out.discrepancies:
        try:
            victim = objs[case['second_round'] % len(objs)]
            vname, vtype = str(victim.name), str(victim.type)
            model.remove_asset(victim)
            fresh = getattr(model.lang_classes_factory.ns, vtype)(name=vname)
            model.add_asset(fresh)
            g2 = AttackGraph(lg, model)
            g2.save_to_file(p)
            loaded2 = AttackGraph.load_from_file(p, model=model)
        except Exception as e:
            out.add('second-round-raises', f'{type(e).__name__}: {e}')
            return out
        out.classes.append('second-round-after-model-edit')
        for n in loaded2.nodes:
            if n.asset is None or n.asset is not model.get_asset_by_name(str(n.asset.name)) \
                    or not any(n.asset is a for a in model.assets):
                out.add('second-round:node-bound-to-asset-not-in-model', n.full_name)
                break
        if set(snapshot(loaded2)['nodes']) != set(snapshot(g2)['nodes']):
            out.add('second-round:node-ids-differ', '')
    return out


@st.composite
def cases(draw):
    c = draw(lang_and_model({'max_assets': 4, 'max_expr_depth': 2},
                            {'max_assets': 4, 'attackers': True, 'min_assets': 1,
                             'weird_names': draw(st.integers(0, 2)) == 0}))
    small = st.integers(0, 15)
    extra = []
    for k in range(draw(st.integers(0, 3))):
        extra.append({'name': draw(st.sampled_from(['Eve', 'Eve', 'Mallory', 'Attacker0'])),
                      'id': draw(st.sampled_from([None, None, 0, 7, 3])),
                      'reached': draw(st.lists(small, min_size=2 if k == 0 else 0, max_size=5)),
                      'n_entry': draw(st.integers(0, 2)),
                      'entry': draw(st.lists(small, max_size=2)) if draw(st.integers(0, 3)) == 0 else None})
    c.update({'attach': draw(st.booleans()), 'extra_attackers': extra,
              'compromises': draw(st.lists(st.tuples(small, small).map(list), max_size=4)),
              'undos': draw(st.lists(st.tuples(small, small).map(list), max_size=2)),
              'analyse': draw(st.integers(0, 3)) > 0, 'prune': draw(st.booleans()),
              'node_extras': draw(st.lists(st.tuples(small, st.sampled_from(EXTRAS)).map(list), max_size=2)),
              'fmt': draw(st.integers(0, 1)), 'with_model': draw(st.integers(0, 1)),
              'second_round': draw(st.integers(0, 6))})
    return c


CLAUSES = [
    Clause('roundtrip', check_case, kind='random', strategy=cases, budget={'quick': 6000, 'thorough': 150000}),
]
