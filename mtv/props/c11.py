"""C11 - attackers and nodes always agree on what is compromised."""
from __future__ import annotations

from hypothesis import strategies as st

from ..driver import Clause, Outcome
from .. import aggen
from ..modelgen import lang_and_model, build_language, build_model

PROPERTY = 'C11'
RULE = ('operation histories over graphs with 1-4 attackers: attacker.compromise(node), node.compromise(attacker), '
        'both undo variants (also on pairs that are not compromised), attach_attackers (model entry points incl. '
        'non-existent step names and several steps per asset), add_attacker with reached steps (attackers may share a name), deepcopy of the graph (the history continues on the copy), remove_attacker '
        '(0, 1, >=2 reached steps); on hand-built graphs and on graphs generated from G_lang x G_model. Oracle: '
        'reference relation R (attackers x nodes) updated by the operations (also remove_node and the generation of another graph from the same model before attaching); after every operation '
        'n in a.reached <=> a in n.compromised_by <=> (a,n) in R, no duplicates on either side, '
        'is_compromised_by agrees, removed attackers are listed by no node; attach creates exactly one attacker '
        'per model attacker whose entry points = reached steps = the existing nodes named by the model. '
        'Non-trivial: an attacker with >=2 reached steps is removed, or >=2 attackers share a node.')
ASSUMPTIONS = ['attackers are identified by object identity']


def check_case(case) -> Outcome:
    from maltoolbox.attackgraph import AttackGraph, Attacker
    out = Outcome()
    model = None
    try:
        if case['start'] == 'ag':
            g, _, _ = aggen.build(case['graph'])
        else:
            from .c01 import generate_graph
            lg, model, objs, g, err, msg = generate_graph(case['spec'], case['model'])
            if err:     # not this property's business (C01 / C15 report it)
                out.classes.append('skipped:' + err)
                return out
    except Exception as e:
        out.add('construction-raises', f'{type(e).__name__}: {e}')
        return out
    R = set()                      # (id(attacker), id(node))
    live = {}                      # id(attacker) -> attacker
    dead = {}
    for a in g.attackers:
        live[id(a)] = a
        for n in a.reached_attack_steps:
            R.add((id(a), id(n)))
    removed_multi = shared = False

    def verify(after):
        nodes = list(g.nodes)
        if len(g.attackers) != len(live) or any(id(a) not in live for a in g.attackers):
            out.add('attacker-list-differs', f'after {after}')
        for a in live.values():
            ra = list(a.reached_attack_steps)
            if len({id(n) for n in ra}) != len(ra):
                out.add('duplicate-in-reached', f'after {after}: {a.name}')
            if {id(n) for n in ra} != {n for (x, n) in R if x == id(a)}:
                out.add('reached-differs-from-reference', f'after {after}: {a.name}')
        for n in nodes:
            cb = list(n.compromised_by)
            if len({id(a) for a in cb}) != len(cb):
                out.add('duplicate-in-compromised_by', f'after {after}: {n.full_name}')
            exp = {x for (x, m) in R if m == id(n)}
            if {id(a) for a in cb} != exp:
                stale = [a.name for a in cb if id(a) in dead]
                out.add('compromised_by-differs-from-reference' + (':removed-attacker-still-listed' if stale else ''),
                        f'after {after}: {n.full_name}')
            for a in live.values():
                if n.is_compromised_by(a) != ((id(a), id(n)) in R):
                    out.add('is_compromised_by-disagrees', f'after {after}: {n.full_name} / {a.name}')

    verify('start')
    for o in case['ops']:
        o = list(o)
        k = o[0]
        nodes = list(g.nodes)
        atts = list(g.attackers)
        try:
            if k in ('a_comp', 'n_comp', 'a_undo', 'n_undo'):
                if not nodes or not atts:
                    continue
                a, n = atts[o[1] % len(atts)], nodes[o[2] % len(nodes)]
                if k == 'a_comp':
                    a.compromise(n)
                elif k == 'n_comp':
                    n.compromise(a)
                elif k == 'a_undo':
                    a.undo_compromise(n)
                else:
                    n.undo_compromise(a)
                if k.endswith('comp'):
                    R.add((id(a), id(n)))
                else:
                    R.discard((id(a), id(n)))
            elif k == 'add':
                if not nodes:
                    continue
                # names are not identities: several attackers may share one
                a = Attacker(name=['Eve', 'Eve', f'X{len(live) + len(dead)}'][len(o[1]) % 3], entry_points=[], reached_attack_steps=[])
                reached = []
                for i in o[1]:
                    if nodes[i % len(nodes)].id not in reached:
                        reached.append(nodes[i % len(nodes)].id)
                g.add_attacker(a, entry_points=reached[:1], reached_attack_steps=reached)
                live[id(a)] = a
                for i in reached:
                    R.add((id(a), id(g.get_node_by_id(i))))
            elif k == 'remove':
                if not atts:
                    continue
                a = atts[o[1] % len(atts)]
                if len(a.reached_attack_steps) >= 2:
                    removed_multi = True
                g.remove_attacker(a)
                dead[id(a)] = live.pop(id(a))
                R = {(x, n) for (x, n) in R if x != id(a)}
            elif k == 'remove_node':
                if len(nodes) < 2:
                    continue
                n = nodes[o[1] % len(nodes)]
                g.remove_node(n)
                R = {(x, m) for (x, m) in R if m != id(n)}
            elif k == 'other_graph':
                # another graph generated from the same model must not interfere with this one
                if model is not None and getattr(g, 'lang_graph', None) is not None:
                    from .c01 import _Guard
                    with _Guard(len(nodes)):
                        AttackGraph(g.lang_graph, model)
            elif k == 'copy':
                import copy as _copy
                old_nodes = {n.id: id(n) for n in g.nodes}
                old_atts = {a.id: id(a) for a in g.attackers}
                g2 = _copy.deepcopy(g)
                node_map = {old_nodes[n.id]: id(n) for n in g2.nodes if n.id in old_nodes}
                att_map = {old_atts[a.id]: a for a in g2.attackers if a.id in old_atts}
                if len(att_map) != len(live) or len(node_map) != len(old_nodes):
                    out.add('copy-lost-attackers-or-nodes', '')
                    break
                R = {(id(att_map[x]), node_map[n]) for (x, n) in R if x in att_map and n in node_map}
                live = {id(a): a for a in att_map.values()}
                g = g2
                model = g.model
            elif k == 'attach':
                if model is None:
                    continue
                before = {id(a) for a in g.attackers}
                g.attach_attackers()
                new = [a for a in g.attackers if id(a) not in before]
                if len(new) != len(model.attackers):
                    out.add('attach:attacker-count', f'{len(new)} new for {len(model.attackers)} model attackers')
                for a, info in zip(new, model.attackers):
                    live[id(a)] = a
                    exp = []
                    for asset, steps in info.entry_points:
                        for s in steps:
                            n = next((x for x in g.nodes if x.asset is asset and x.name == s), None)
                            if n is not None and id(n) not in [id(e) for e in exp]:
                                exp.append(n)
                    if a.name != info.name:
                        out.add('attach:name', f'{a.name} != {info.name}')
                    if {id(x) for x in a.entry_points} != {id(x) for x in exp} or len(a.entry_points) != len(exp):
                        out.add('attach:entry-points', f'{[x.full_name for x in a.entry_points]} != {[x.full_name for x in exp]}')
                    if {id(x) for x in a.reached_attack_steps} != {id(x) for x in exp}:
                        out.add('attach:reached', f'{[x.full_name for x in a.reached_attack_steps]} != {[x.full_name for x in exp]}')
                    for n in exp:
                        R.add((id(a), id(n)))
        except Exception as e:
            out.add(f'operation-raises:{k}', f'{type(e).__name__}: {e}')
            break
        if any(sum(1 for (x, m) in R if m == id(n)) >= 2 for n in g.nodes):
            shared = True
        verify(o)
        if out.discrepancies:
            break
    out.nontrivial = removed_multi or shared
    out.classes += [c for c, f in (('removed-attacker-with>=2-reached', removed_multi), ('node-shared-by>=2-attackers', shared)) if f]
    return out


def _ops(n, generated):
    small = st.integers(0, 15)
    alts = [st.tuples(st.sampled_from(['a_comp', 'n_comp', 'a_comp', 'n_comp', 'a_undo', 'n_undo']), small, small),
            st.just(('copy',)),
            st.tuples(st.just('remove_node'), small),
            st.tuples(st.just('add'), st.lists(small, max_size=4)),
            st.tuples(st.just('remove'), small)]
    if generated:
        alts.append(st.just(('attach',)))
        alts.append(st.just(('attach',)))
        alts.append(st.just(('other_graph',)))
    return st.lists(st.one_of(*alts).map(list), min_size=1, max_size=n)


@st.composite
def ag_cases(draw, n=20):
    g = draw(aggen.graphs(max_nodes=15, min_nodes=3, attackers=3, tags=False))
    return {'start': 'ag', 'graph': g, 'ops': draw(_ops(n, False))}


@st.composite
def gen_cases(draw, n=20):
    c = draw(lang_and_model({'max_assets': 4, 'max_expr_depth': 1, 'arith_ttc': False},
                            {'max_assets': 4, 'attackers': True, 'min_assets': 1}))
    return {'start': 'gen', 'spec': c['spec'], 'model': c['model'], 'ops': draw(_ops(n, True))}


CLAUSES = [
    Clause('hand-built-graphs', check_case, kind='random', strategy=lambda: ag_cases(20),
           budget={'quick': 6000, 'thorough': 150000}),
    Clause('generated-graphs', check_case, kind='random', strategy=lambda: gen_cases(20),
           budget={'quick': 3000, 'thorough': 75000}),
]
