"""C03 - step inheritance resolves override/extend correctly and the lookup is pure."""
from __future__ import annotations

import copy

from hypothesis import strategies as st

from ..driver import Clause, Outcome
from ..langgen import languages, lang_classes
from ..modelgen import build_model
from ..ref_lang import Lang

PROPERTY = 'C03'
RULE = ('languages biased towards inheritance chains of depth 3-5 with every mix of absent / -> / +> per '
        'level, parents without a reaches clause and siblings, x histories (operation lists) of: resolver '
        'lookup of a type, LanguageGraph(spec) again on the same dict, regenerate_graph(), attack-graph '
        'generation for a small model, class-factory construction. Oracle: reference fold (root-down: first '
        'declaration defines, -> replaces, +> appends, no reaches leaves untouched) compared after every '
        'operation through the resolver, LanguageGraphAsset.attack_steps and attack-graph node attributes; '
        'the specification dict must stay deep-equal to its snapshot. Non-trivial: a step extended at >=2 '
        'levels of a chain whose first definition has no reaches, or siblings of which one extends, and >=3 '
        'operations.')
ASSUMPTIONS = ['the per-type resolver is observed through LanguageGraph._get_attacks_for_asset_type when present '
               '(the property anchors it); its absence degrades to the public observation points']


def _view(sdef):
    return {
        'type': sdef['type'],
        'ttc': sdef['ttc'],
        'tags': list(sdef['tags']),
        'reaches': list(sdef['reaches']['stepExpressions']) if sdef.get('reaches') else [],
        'requires': list(sdef['requires']['stepExpressions']) if sdef.get('requires') else [],
    }


def _expected(L, t):
    return {n: _view(s) for n, s in L.fold(t).items()}


def _cmp(out, where, t, got, exp):
    if set(got) != set(exp):
        out.add(f'steps-of-type:{where}', f'{t}: {sorted(got)} != {sorted(exp)}')
        return
    for n in exp:
        for k in ('reaches', 'type', 'ttc', 'tags', 'requires'):
            if got[n][k] != exp[n][k]:
                out.add(f'step-{k}:{where}', f'{t}.{n}: {got[n][k]} != {exp[n][k]}')
                return


def _shape_nontrivial(L):
    for t in L.order:
        chain = list(reversed(L.chain(t)))
        for s in L.step_names(t):
            decls = []
            for x in chain:
                for d in L.assets[x]['attackSteps']:
                    if d['name'] == s:
                        decls.append(d)
            if decls and not decls[0]['reaches'] and \
                    sum(1 for d in decls[1:] if d['reaches'] and not d['reaches']['overrides']) >= 2:
                return True
    for p in L.order:
        kids = L.children(p)
        if len(kids) >= 2:
            for k in kids:
                if any(d['reaches'] and not d['reaches']['overrides'] for d in L.assets[k]['attackSteps']):
                    return True
    return False


def check_case(case) -> Outcome:
    from maltoolbox.language import LanguageGraph, LanguageClassesFactory
    from maltoolbox.attackgraph import AttackGraph
    out = Outcome()
    spec = copy.deepcopy(case['spec'])      # the dict handed to the toolbox
    snapshot = copy.deepcopy(case['spec'])
    L = Lang(snapshot)
    out.classes += [c for c in lang_classes(snapshot) if c.startswith('lang:depth') or c == 'lang:extend']
    expected = {t: _expected(L, t) for t in L.order}
    try:
        lg = LanguageGraph(spec)
    except Exception as e:
        out.add('language-rejected', f'{type(e).__name__}: {e}')
        return out
    concrete = L.concrete()
    mdesc = {'assets': [{'type': t, 'name': f'x{i}', 'id': None, 'defenses': {}} for i, t in enumerate(concrete)],
             'links': [], 'attackers': []}

    def resolver(graph):
        return getattr(graph, '_get_attacks_for_asset_type', None)

    def observe_langgraph(graph, where):
        for a in graph.assets:
            got = {}
            for s in a.attack_steps:
                attrs = getattr(s, 'attributes', None)
                if isinstance(attrs, dict):
                    got[s.name] = _view(attrs)
                    if s.type != attrs['type']:
                        out.add(f'step-type:{where}', f'{a.name}.{s.name}')
            _cmp(out, where, a.name, got, expected[a.name])

    observe_langgraph(lg, 'langgraph')
    n_ops = 0
    kinds = set()
    for op in case['ops']:
        n_ops += 1
        kinds.add(op[0])
        try:
            if op[0] == 'lookup':
                r = resolver(lg)
                if r is not None:
                    t = L.order[op[1] % len(L.order)]
                    got = {n: _view(s) for n, s in r(t).items()}
                    _cmp(out, 'resolver', t, got, expected[t])
            elif op[0] == 'newgraph':
                lg = LanguageGraph(spec)
                observe_langgraph(lg, 'langgraph-rebuilt')
            elif op[0] == 'regen':
                lg.regenerate_graph()
                observe_langgraph(lg, 'langgraph-regenerated')
            elif op[0] == 'factory':
                LanguageClassesFactory(lg)
            elif op[0] == 'attackgraph':
                cf = LanguageClassesFactory(lg)
                model, objs = build_model(cf, snapshot, mdesc)
                g = AttackGraph(lg, model)
                for i, t in enumerate(concrete):
                    got = {}
                    for n in g.nodes:
                        if n.asset is objs[i] and isinstance(getattr(n, 'attributes', None), dict):
                            got[n.name] = _view(n.attributes)
                    _cmp(out, 'attackgraph-nodes', t, got, expected[t])
        except Exception as e:
            out.add(f'operation-raises:{op[0]}', f'{type(e).__name__}: {e}')
        if spec != snapshot:
            out.add('specification-modified', f'after {op}')
            break
        if out.discrepancies:
            break
    # final sweep: two consecutive lookups of every type are equal and correct
    r = resolver(lg)
    if r is not None and not out.discrepancies:
        for t in L.order:
            a = {n: _view(s) for n, s in r(t).items()}
            b = {n: _view(s) for n, s in r(t).items()}
            if a != b:
                out.add('consecutive-lookups-differ', t)
            _cmp(out, 'resolver-final', t, b, expected[t])
        if spec != snapshot:
            out.add('specification-modified', 'after final sweep')
    out.nontrivial = _shape_nontrivial(L) and n_ops >= 3
    out.classes += ['op:' + k for k in sorted(kinds)]
    return out


def _ops(max_ops):
    return st.lists(st.one_of(
        st.tuples(st.just('lookup'), st.integers(0, 6)).map(list),
        st.just(['newgraph']), st.just(['regen']), st.just(['attackgraph']), st.just(['factory'])),
        min_size=1, max_size=max_ops)


@st.composite
def cases(draw, max_ops=12):
    spec = draw(languages(max_assets=6, min_assets=2, max_expr_depth=1, deep_chains=True, arith_ttc=False))
    return {'spec': spec, 'ops': draw(_ops(max_ops))}


CLAUSES = [
    Clause('histories', check_case, kind='random', strategy=lambda: cases(12),
           budget={'quick': 5000, 'thorough': 120000}),
    Clause('long-histories', check_case, kind='random', strategy=lambda: cases(30),
           budget={'quick': 0, 'thorough': 24000}),
]
