"""C08 - viability / necessity labels are the greatest fixed point, in any node order."""
from __future__ import annotations

import itertools

from hypothesis import strategies as st

from ..driver import Clause, Outcome
from .. import aggen
from ..aggen import node, DIST, ENABLED, DISABLED, ref_apriori, ttc_is_distribution
from ..modelgen import lang_and_model
from .c01 import generate_graph

PROPERTY = 'C08'
RULE = ('(a) exhaustive: all attack graphs with <=2 nodes over the full attribute alphabet (5 types, defense '
        'status {0,1,0.5}, existence {T,F}, TTC {none,Enabled,Disabled,distribution}, all edge sets incl. '
        'self-loops) and all 3-node graphs over a reduced alphabet (types or/and/defense/exist, all 2^9 edge '
        'sets, one binary attribute per node: status for defense/exist, TTC none/distribution for steps), each '
        'under ALL node orders (quick tier: every 8th 3-node graph); (b) random graphs up to 12 nodes x sampled '
        'node and edge permutations; (c) graphs generated from G_lang x G_model under permuted asset order. '
        'Oracle: reference greatest fixed point by downward Kleene iteration of the stated equations (a parent '
        'with a TTC distribution counts as necessary); every order must give that labelling. Non-trivial: a '
        'non-viable or unnecessary source and an and/or step with >=2 parents.')
ASSUMPTIONS = ['a TTC given as an arithmetic tree is not generated on nodes whose parents are unnecessary '
               '(the statement does not say whether such a tree is a probability distribution)',
               'fractional defense status counts as neither enabled nor disabled, as the node predicates do']


def _labels(desc, order, edge_order=None):
    from maltoolbox.attackgraph.analyzers.apriori import calculate_viability_and_necessity
    g, objs, _ = aggen.build(desc, order=order, edge_order=edge_order)
    calculate_viability_and_necessity(g)
    return [o.is_viable for o in objs], [o.is_necessary for o in objs]


def _nontrivial(desc, via, nec):
    n = len(desc['nodes'])
    par = [[] for _ in range(n)]
    for i, j in desc['edges']:
        par[j].append(i)
    src = any((not via[i] or not nec[i]) and desc['nodes'][i]['type'] in ('defense', 'exist', 'notExist')
              for i in range(n))
    multi = any(desc['nodes'][i]['type'] in ('or', 'and') and len(set(par[i])) >= 2 for i in range(n))
    return src and multi


def _classes(desc, via, nec):
    n = len(desc['nodes'])
    par = [[] for _ in range(n)]
    for i, j in desc['edges']:
        par[j].append(i)
    out = []
    gated = [ttc_is_distribution(d['ttc']) for d in desc['nodes']]
    for i in range(n):
        if desc['nodes'][i]['type'] == 'and':
            ps = set(par[i])
            if any(gated[p] and not nec[p] for p in ps) and any(not gated[p] and not nec[p] for p in ps):
                out.append('ttc-gate:and-with-gated-and-ungated-unnecessary-parent')
    if any(i == j for i, j in desc['edges']):
        out.append('self-loop')
    if not all(via):
        out.append('some-non-viable')
    if not all(nec):
        out.append('some-unnecessary')
    return out


def check_graph(case) -> Outcome:
    out = Outcome()
    desc = case['graph']
    n = len(desc['nodes'])
    via, nec = ref_apriori(desc['nodes'], desc['edges'])
    out.nontrivial = _nontrivial(desc, via, nec)
    out.classes += _classes(desc, via, nec)
    orders = case.get('orders')
    if orders is None:
        orders = [list(p) for p in itertools.permutations(range(n))]
    eorders = case.get('edge_orders') or [None]
    seen = None
    for k, order in enumerate(orders):
        eo = eorders[k % len(eorders)]
        try:
            gv, gn = _labels(desc, order, eo)
        except RecursionError:
            out.add('analysis-does-not-terminate', f'order {order}')
            return out
        except Exception as e:
            out.add('analysis-raises', f'{type(e).__name__}: {e}')
            return out
        if gv != via:
            bad = [i for i in range(n) if gv[i] != via[i]]
            out.add('viability-differs:' + desc['nodes'][bad[0]]['type'],
                    f'order {order}: node {bad[0]} viable={gv[bad[0]]} expected {via[bad[0]]}')
        if gn != nec:
            bad = [i for i in range(n) if gn[i] != nec[i]]
            gate = 'ttc-gate' if any(ttc_is_distribution(d['ttc']) for d in desc['nodes']) else 'plain'
            out.add(f'necessity-differs:{desc["nodes"][bad[0]]["type"]}:{gate}',
                    f'order {order}: node {bad[0]} necessary={gn[bad[0]]} expected {nec[bad[0]]}')
        if seen is not None and (gv, gn) != seen:
            out.add('labelling-depends-on-order', f'order {order} vs {orders[0]}')
        seen = seen or (gv, gn)
        if out.discrepancies:
            break
    return out


# ---- exhaustive sub-spaces -----------------------------------------------------------------------

def _variants_full():
    v = []
    for t in ('or', 'and'):
        for ttc in (None, ENABLED, DISABLED, DIST):
            v.append(node(t, ttc=ttc))
    for s in (0.0, 1.0, 0.5):
        v.append(node('defense', s, ttc=ENABLED))
    v.append(node('defense', 0.0, ttc=DIST))
    v.append(node('defense', 1.0, ttc=ENABLED, tags=['suppress']))   # the suppress tag concerns the queries only
    for t in ('exist', 'notExist'):
        for s in (False, True):
            v.append(node(t, s))
    return v


def _variants_reduced():
    v = []
    for t in ('or', 'and'):
        for ttc in (None, DIST):
            v.append(node(t, ttc=ttc))
    for s in (0.0, 1.0):
        v.append(node('defense', s))
    for s in (False, True):
        v.append(node('exist', s))
    return v


def _edge_sets(n):
    pairs = [(i, j) for i in range(n) for j in range(n)]
    for mask in range(1 << len(pairs)):
        yield [[i, j] for b, (i, j) in enumerate(pairs) if mask >> b & 1]


def _named(nodes):
    out = []
    for i, d in enumerate(nodes):
        d = dict(d)
        d['name'] = f's{i}'
        out.append(d)
    return out


def _enum_small(tier):
    full = _variants_full()
    for n in (1, 2):
        for combo in itertools.product(full, repeat=n):
            for edges in _edge_sets(n):
                yield {'graph': {'nodes': _named(combo), 'edges': edges, 'attackers': []}}


def _enum_three(tier):
    red = _variants_reduced()
    k = 0
    stride = 8 if tier == 'quick' else 1
    for combo in itertools.product(red, repeat=3):
        # symmetry is not exploited: all orders are evaluated anyway
        for edges in _edge_sets(3):
            k += 1
            if k % stride:
                continue
            yield {'graph': {'nodes': _named(combo), 'edges': edges, 'attackers': []}}


@st.composite
def random_cases(draw):
    g = draw(aggen.graphs(max_nodes=12, min_nodes=2, tags=True))   # tags (e.g. suppress) must not matter
    n = len(g['nodes'])
    orders = [list(range(n)), list(reversed(range(n)))] + \
        [draw(st.permutations(list(range(n)))) for _ in range(4)]
    ne = len(g['edges'])
    eorders = [None, list(reversed(range(ne)))] + [draw(st.permutations(list(range(ne)))) for _ in range(2)]
    return {'graph': g, 'orders': [list(o) for o in orders], 'edge_orders': [None if e is None else list(e) for e in eorders]}


# ---- graphs generated from languages and models ---------------------------------------------------

def check_generated(case) -> Outcome:
    from maltoolbox.attackgraph.analyzers.apriori import calculate_viability_and_necessity
    out = Outcome()
    spec, mdesc = case['spec'], case['model']
    results = []
    for perm in case['perms']:
        n = len(mdesc['assets'])
        perm = [p for p in perm if p < n]
        perm += [i for i in range(n) if i not in perm]
        inv = {old: new for new, old in enumerate(perm)}
        m2 = {'assets': [mdesc['assets'][i] for i in perm],
              'links': [{'assoc': ln['assoc'], 'left': [inv[x] for x in ln['left']],
                         'right': [inv[x] for x in ln['right']]} for ln in mdesc['links']],
              'attackers': []}
        lg, model, objs, g, err, msg = generate_graph(spec, m2)
        if err:     # generation problems are C01's business
            out.classes.append('skipped:' + err)
            return out
        nodes = list(g.nodes)
        idx = {id(x): i for i, x in enumerate(nodes)}
        descn = [{'type': x.type, 'defense_status': None if x.defense_status is None else float(x.defense_status),
                  'existence_status': x.existence_status, 'ttc': x.ttc} for x in nodes]
        edges = sorted({(idx[id(x)], idx[id(c)]) for x in nodes for c in x.children})
        via, nec = ref_apriori(descn, [list(e) for e in edges])
        try:
            calculate_viability_and_necessity(g)
        except Exception as e:
            out.add('analysis-raises', f'{type(e).__name__}: {e}')
            return out
        lab = {}
        for i, x in enumerate(nodes):
            lab[x.full_name] = (x.is_viable, x.is_necessary)
            if x.is_viable != via[i]:
                out.add('generated:viability-differs:' + x.type, f'{x.full_name}: {x.is_viable} expected {via[i]}')
            if x.is_necessary != nec[i]:
                out.add('generated:necessity-differs:' + x.type, f'{x.full_name}: {x.is_necessary} expected {nec[i]}')
        results.append(lab)
        if not out.nontrivial:
            out.nontrivial = _nontrivial({'nodes': descn, 'edges': [list(e) for e in edges]}, via, nec)
    if any(r != results[0] for r in results[1:]):
        out.add('generated:labelling-depends-on-asset-order', '')
    return out


@st.composite
def generated_cases(draw):
    c = draw(lang_and_model({'max_assets': 4, 'max_expr_depth': 2, 'arith_ttc': False},
                            {'max_assets': 5, 'attackers': False, 'min_assets': 1}))
    n = len(c['model']['assets'])
    c['perms'] = [list(range(n)), list(reversed(range(n))), list(draw(st.permutations(list(range(n)))))]
    return c


CLAUSES = [
    Clause('small-graphs-exhaustive', check_graph, kind='exhaustive', enumerate=_enum_small,
           space='all graphs with 1 or 2 nodes over the full attribute alphabet x all edge sets x all node orders'),
    Clause('three-node-graphs', check_graph, kind='exhaustive', enumerate=_enum_three,
           space='all 3-node graphs over the reduced alphabet (8 variants per node) x all 2^9 edge sets x all 6 node orders (quick tier: every 8th graph only)'),
    Clause('random-graphs', check_graph, kind='random', strategy=random_cases,
           budget={'quick': 12000, 'thorough': 450000}),
    Clause('generated-graphs', check_generated, kind='random', strategy=generated_cases,
           budget={'quick': 2000, 'thorough': 60000}),
]
