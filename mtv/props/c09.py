"""C09 - attack-graph structure and lookup indexes stay consistent in any history."""
from __future__ import annotations

import copy
import itertools
import os

from hypothesis import strategies as st

from ..driver import Clause, Outcome
from ..env import worker_tmp
from .. import aggen
from ..aggen import node, structural_problems, snapshot
from ..modelgen import lang_and_model, build_language, build_model

PROPERTY = 'C09'
RULE = ('operation histories over (i) hand-built graphs (G_ag: cycles, self-loops, multi-edges, attackers) and '
        '(ii) graphs generated from G_lang x G_model with attackers: regenerate_graph, add_node (id None / '
        'fresh / existing), remove_node (plain, compromised, entry point, self-looped), attach_attackers, '
        'add_attacker (id None / 0 / fresh / existing), remove_attacker, compromise, undo_compromise, analysis, '
        'prune, deepcopy (continue on the copy), save+load json/yml with or without model (continue on the '
        'loaded graph); bounded-exhaustive: all sequences of length <=3 over a 14-operation alphabet on a fixed '
        '4-node graph. Invariants after every operation: I1 child/parent references inside the graph and '
        'mirrored with multiplicity, I2 id / full-name lookups exact (nothing stale, nothing missing, no id '
        'twice), I3 attacker <-> node references inside the graph and attacker lookup exact, I4 a regenerated '
        'graph equals a freshly generated one (snapshot, lookups, counters). Non-trivial: >=3 mutating '
        'operations of >=2 kinds including a removal or regeneration, with an attacker present.')
ASSUMPTIONS = ['re-using a live id in add_node / add_attacker may either raise or be handled, as long as the '
               'invariants hold afterwards', 'removing a node that is not in the graph is not generated']

MUTATING = {'regen', 'add_node', 'remove_node', 'attach', 'add_attacker', 'remove_attacker', 'compromise',
            'undo', 'prune', 'deepcopy', 'saveload'}


class Skip(Exception):
    pass


class Run:
    def __init__(self, case, out):
        self.out = out
        self.case = case
        self.lg = self.model = self.spec = None
        self.removed_ids, self.removed_names, self.removed_att = set(), set(), set()
        self.kinds = []
        if case['start'] == 'ag':
            self.g, _, _ = aggen.build(case['graph'])
        else:
            from .c01 import generate_graph
            self.spec = case['spec']
            self.lg, self.model, _, self.g, err, msg = generate_graph(case['spec'], case['model'])
            if err:
                raise Skip(err)

    def _node(self, i):
        ns = list(self.g.nodes)
        return ns[i % len(ns)] if ns else None

    def _att(self, j):
        a = list(self.g.attackers)
        return a[j % len(a)] if a else None

    def op(self, o):
        from maltoolbox.attackgraph import AttackGraph, AttackGraphNode, Attacker
        from maltoolbox.attackgraph.analyzers import apriori
        g, k = self.g, o[0]
        if k == 'regen':
            if self.model is None or getattr(g, 'lang_graph', None) is None or g.model is None:
                return False
            old_ids = {n.id for n in g.nodes}
            old_names = {n.full_name for n in g.nodes}
            old_att = {a.id for a in g.attackers}
            g.regenerate_graph()
            fresh = AttackGraph(self.lg, self.model)
            if snapshot(g) != snapshot(fresh):
                self.out.add('I4:regenerated-differs-from-fresh', _diff(snapshot(g), snapshot(fresh)))
            for attr in ('next_node_id', 'next_attacker_id'):
                if hasattr(g, attr) and getattr(g, attr) != getattr(fresh, attr):
                    self.out.add('I4:counter-differs-from-fresh', f'{attr}: {getattr(g, attr)} != {getattr(fresh, attr)}')
            self.removed_ids |= old_ids - {n.id for n in g.nodes}
            self.removed_names |= old_names - {n.full_name for n in g.nodes}
            self.removed_att |= old_att
            # lookups must agree with the fresh graph for every key either knows
            for i in sorted(old_ids | {n.id for n in fresh.nodes}):
                a, b = g.get_node_by_id(i), fresh.get_node_by_id(i)
                if (a is None) != (b is None) or (a is not None and a.full_name != b.full_name):
                    self.out.add('I4:lookup-differs-from-fresh', f'id {i}')
                    break
        elif k == 'add_node':
            ids = sorted(n.id for n in g.nodes)
            mode = o[1] % 3
            nid = None if mode == 0 else ((max(ids, default=0) + 5) if mode == 1 else (ids[o[2] % len(ids)] if ids else None))
            nd = AttackGraphNode(type=['or', 'and', 'defense'][o[2] % 3], name=f'new{len(self.kinds)}')
            if nd.type == 'defense':
                nd.defense_status = 0.0
            try:
                if nid is None:
                    g.add_node(nd)
                else:
                    g.add_node(nd, node_id=nid)
            except Exception:
                return False     # documented as an error for a live id; invariants are checked below
        elif k == 'remove_node':
            nd = self._node(o[1])
            if nd is None:
                return False
            self.removed_ids.add(nd.id)
            self.removed_names.add(nd.full_name)
            g.remove_node(nd)
        elif k == 'attach':
            if g.model is None:
                return False
            g.attach_attackers()
        elif k == 'add_attacker':
            aids = sorted(a.id for a in g.attackers)
            mode = o[1] % 4
            aid = None if mode == 0 else (0 if mode == 1 else ((max(aids, default=0) + 3) if mode == 2 else (aids[0] if aids else None)))
            ns = list(g.nodes)
            reached = sorted({ns[i % len(ns)].id for i in o[2]}) if ns else []
            att = Attacker(name=f'A{len(self.kinds)}', entry_points=[], reached_attack_steps=[])
            try:
                if aid is None:
                    g.add_attacker(att, entry_points=reached[:1], reached_attack_steps=reached)
                else:
                    g.add_attacker(att, attacker_id=aid, entry_points=reached[:1], reached_attack_steps=reached)
            except ValueError:
                # id in use: the half-initialised attacker must not have left traces
                for n in g.nodes:
                    if any(a is att for a in n.compromised_by):
                        self.out.add('I3:rejected-attacker-left-in-compromised_by', n.full_name)
                        break
                return False
        elif k == 'remove_attacker':
            a = self._att(o[1])
            if a is None:
                return False
            self.removed_att.add(a.id)
            g.remove_attacker(a)
        elif k in ('compromise', 'undo'):
            a, nd = self._att(o[1]), self._node(o[2])
            if a is None or nd is None:
                return False
            (a.compromise if k == 'compromise' else a.undo_compromise)(nd)
        elif k == 'analyse':
            apriori.calculate_viability_and_necessity(g)
        elif k == 'prune':
            before = {n.id: n.full_name for n in g.nodes}
            apriori.prune_unviable_and_unnecessary_nodes(g)
            for i in set(before) - {n.id for n in g.nodes}:
                self.removed_ids.add(i)
                self.removed_names.add(before[i])
        elif k == 'deepcopy':
            self.g = copy.deepcopy(g)
        elif k == 'saveload':
            fmt = ['json', 'yml'][o[1] % 2]
            with_model = bool(o[2] % 2) and g.model is not None
            p = os.path.join(worker_tmp('c09'), 'g.' + fmt)
            g.save_to_file(p)
            old_names = {n.full_name for n in g.nodes}
            self.g = AttackGraph.load_from_file(p, model=g.model if with_model else None)
            if not with_model:
                self.model = None
            self.removed_names |= old_names - {n.full_name for n in self.g.nodes}
        else:
            raise ValueError(k)
        return True


def _diff(a, b):
    for key in ('nodes', 'attackers'):
        if set(a[key]) != set(b[key]):
            return f'{key} ids {sorted(a[key])} != {sorted(b[key])}'
        for i in a[key]:
            if a[key][i] != b[key][i]:
                return f'{key}[{i}]: {a[key][i]} != {b[key][i]}'
    return ''


def check_case(case) -> Outcome:
    out = Outcome()
    try:
        run = Run(case, out)
    except Skip as e:      # generation itself failed: C01 / C15 report that
        out.classes.append(f'skipped:{e}')
        return out
    except Exception as e:
        out.add('construction-raises', f'{type(e).__name__}: {e}')
        return out
    executed = []
    had_attacker = False
    for o in case['ops']:
        o = list(o)
        try:
            done = run.op(o)
        except Exception as e:
            out.add(f'operation-raises:{o[0]}', f'{type(e).__name__}: {e}')
            break
        run.kinds.append(o[0])
        if done:
            executed.append(o[0])
        had_attacker = had_attacker or bool(run.g.attackers)
        for sig, msg in structural_problems(run.g, run.removed_ids, run.removed_names, run.removed_att):
            out.add(f'{sig}:after-{o[0]}', f'{msg} (history {executed})')
        if out.discrepancies:
            break
    mut = [k for k in executed if k in MUTATING]
    out.nontrivial = len(mut) >= 3 and len(set(mut)) >= 2 and \
        bool({'remove_node', 'regen', 'remove_attacker', 'prune'} & set(mut)) and had_attacker
    out.classes += sorted({'op:' + k for k in executed})
    return out


# ---- generators ---------------------------------------------------------------------------------------

def _ops(max_ops, generated):
    small = st.integers(0, 11)
    alts = [
        st.tuples(st.just('add_node'), st.integers(0, 2), small),
        st.tuples(st.just('remove_node'), small),
        st.tuples(st.just('remove_node'), small),
        st.tuples(st.just('add_attacker'), st.integers(0, 3), st.lists(small, max_size=4)),
        st.tuples(st.just('remove_attacker'), small),
        st.tuples(st.just('compromise'), small, small),
        st.tuples(st.just('compromise'), small, small),
        st.tuples(st.just('undo'), small, small),
        st.just(('analyse',)), st.just(('prune',)), st.just(('deepcopy',)),
        st.tuples(st.just('saveload'), st.integers(0, 1), st.integers(0, 1)),
    ]
    if generated:
        alts += [st.just(('regen',)), st.just(('attach',)), st.just(('attach',))]
    return st.lists(st.one_of(*alts).map(list), min_size=1, max_size=max_ops)


@st.composite
def ag_cases(draw, max_ops=15):
    g = draw(aggen.graphs(max_nodes=7, min_nodes=2, attackers=2, extras=True))
    return {'start': 'ag', 'graph': g, 'ops': draw(_ops(max_ops, False))}


@st.composite
def gen_cases(draw, max_ops=15):
    c = draw(lang_and_model({'max_assets': 4, 'max_expr_depth': 2, 'arith_ttc': False},
                            {'max_assets': 4, 'attackers': True, 'min_assets': 1}))
    return {'start': 'gen', 'spec': c['spec'], 'model': c['model'], 'ops': draw(_ops(max_ops, True))}


FIXED = {'nodes': [node('defense', 1.0, name='d'), node('or', name='a'), node('and', name='b'), node('or', name='c')],
         'edges': [[0, 1], [1, 2], [0, 2], [2, 3], [3, 3], [1, 3], [1, 3]],
         'attackers': [{'name': 'Att0', 'reached': [1, 2, 3]}]}
ALPHABET = [['add_node', 0, 0], ['add_node', 2, 1], ['remove_node', 1], ['remove_node', 3], ['remove_node', 0],
            ['add_attacker', 0, [1, 2]], ['add_attacker', 1, [3]], ['remove_attacker', 0], ['compromise', 0, 0],
            ['undo', 0, 2], ['analyse'], ['prune'], ['deepcopy'], ['saveload', 0, 0]]


def _enum(tier):
    n = 3 if tier == 'quick' else 4
    for ln in range(1, n + 1):
        for seq in itertools.product(range(len(ALPHABET)), repeat=ln):
            yield {'start': 'ag', 'graph': FIXED, 'ops': [ALPHABET[i] for i in seq]}


CLAUSES = [
    Clause('short-histories-exhaustive', check_case, kind='exhaustive', enumerate=_enum,
           space='all operation sequences of length <=3 (quick) / <=4 (thorough) over a 14-operation alphabet on a fixed 4-node graph with one attacker'),
    Clause('hand-built-graph-histories', check_case, kind='random', strategy=lambda: ag_cases(15),
           budget={'quick': 4000, 'thorough': 120000}),
    Clause('generated-graph-histories', check_case, kind='random', strategy=lambda: gen_cases(15),
           budget={'quick': 3000, 'thorough': 90000}),
    Clause('long-histories', check_case, kind='random', strategy=lambda: gen_cases(40),
           budget={'quick': 0, 'thorough': 12000}),
]
