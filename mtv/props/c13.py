"""C13 - pruning removes exactly the non-viable or unnecessary attack steps."""
from __future__ import annotations

import itertools

from hypothesis import strategies as st

from ..driver import Clause, Outcome
from .. import aggen
from ..aggen import node, structural_problems

PROPERTY = 'C13'
RULE = ('labelled attack graphs: hand-built graphs with arbitrary viability / necessity labels (runs of prunable '
        'nodes adjacent in the node list, prunable nodes linked to each other, attackers on prunable nodes), '
        'graphs labelled by the analyser (hand-built and generated from G_lang x G_model with attached attackers), and exhaustively all label assignments on all 3-node graphs over a '
        '5-variant alphabet x all 2^9 edge sets. Oracle: after pruning the remaining node set is exactly '
        '{n : not (type in {or,and} and (not viable or not necessary))}, labels of the remaining nodes are '
        'unchanged and the structural invariants I1-I3 of C09 hold. Non-trivial: >=2 prunable nodes adjacent in '
        'the node list or linked to each other.')
ASSUMPTIONS = []


def check_case(case) -> Outcome:
    from maltoolbox.attackgraph.analyzers import apriori
    out = Outcome()
    if 'graph' in case:
        g, objs, atts = aggen.build(case['graph'])
        edges = case['graph']['edges']
        att_reached = [i for a in case['graph']['attackers'] for i in a['reached']]
    else:
        # a graph generated from a language and a model, attackers attached
        from .c01 import generate_graph
        lg, model, mobjs, g, err, msg = generate_graph(case['spec'], case['model'])
        if err:
            out.classes.append('skipped:' + err)
            return out
        try:
            g.attach_attackers()
        except Exception as e:
            out.classes.append('skipped:attach:' + type(e).__name__)
            return out
        objs = list(g.nodes)
        idx = {id(n): i for i, n in enumerate(objs)}
        edges = [[idx[id(n)], idx[id(c)]] for n in objs for c in n.children]
        att_reached = [idx[id(n)] for a in g.attackers for n in a.reached_attack_steps]
    if case.get('analyse'):
        try:
            apriori.calculate_viability_and_necessity(g)
        except Exception as e:
            out.add('analysis-raises', f'{type(e).__name__}: {e}')
            return out
    prunable = [n.type in ('or', 'and') and (not n.is_viable or not n.is_necessary) for n in objs]
    order = list(g.nodes)
    pos = {id(n): i for i, n in enumerate(order)}
    flags = [prunable[objs.index(n)] for n in order]
    adjacent = any(flags[i] and flags[i + 1] for i in range(len(flags) - 1))
    linked = any(prunable[i] and prunable[j] and i != j for i, j in edges)
    out.nontrivial = adjacent or linked
    out.classes += [c for c, f in (('adjacent-prunable', adjacent), ('linked-prunable', linked),
                                   ('nothing-prunable', not any(prunable)),
                                   ('attacker-on-prunable', any(prunable[i] for i in att_reached))) if f]
    labels = {id(n): (n.is_viable, n.is_necessary) for n in objs}
    removed_ids = {n.id for n, p in zip(objs, prunable) if p}
    removed_names = {n.full_name for n, p in zip(objs, prunable) if p}
    try:
        apriori.prune_unviable_and_unnecessary_nodes(g)
    except Exception as e:
        out.add('prune-raises', f'{type(e).__name__}: {e}')
        return out
    remaining = {id(n) for n in g.nodes}
    for n, p in zip(objs, prunable):
        if p and id(n) in remaining:
            out.add('prunable-node-remains', f'{n.full_name} viable={n.is_viable} necessary={n.is_necessary}')
        if not p and id(n) not in remaining:
            out.add('non-prunable-node-removed:' + n.type, n.full_name)
        if id(n) in remaining and labels[id(n)] != (n.is_viable, n.is_necessary):
            out.add('labels-changed-by-prune', n.full_name)
    if len(g.nodes) != len(remaining):
        out.add('node-listed-twice', '')
    for sig, msg in structural_problems(g, removed_ids, removed_names):
        out.add(sig + ':after-prune', msg)
    return out


@st.composite
def cases(draw):
    g = draw(aggen.graphs(max_nodes=10, min_nodes=2, labels=True, attackers=2,
                          types=['or', 'or', 'and', 'and', 'defense', 'exist']))
    # make runs of prunable nodes likely
    if draw(st.booleans()):
        start = draw(st.integers(0, len(g['nodes']) - 1))
        for i in range(start, min(len(g['nodes']), start + draw(st.integers(2, 5)))):
            if g['nodes'][i]['type'] in ('or', 'and'):
                g['nodes'][i]['is_viable'] = False
    if draw(st.integers(0, 3)) == 0:
        # explicit ids that do not follow the insertion order (as in a graph loaded from a file sorted by name)
        n = len(g['nodes'])
        g['ids'] = list(draw(st.permutations([3 * k + 1 for k in range(n)])))
    return {'graph': g, 'analyse': False}


@st.composite
def analysed_cases(draw):
    g = draw(aggen.graphs(max_nodes=10, min_nodes=2, labels=False, attackers=1, tags=False))
    return {'graph': g, 'analyse': True}


@st.composite
def generated_cases(draw):
    from ..modelgen import lang_and_model
    c = draw(lang_and_model({'max_assets': 4, 'max_expr_depth': 2, 'arith_ttc': False},
                            {'max_assets': 5, 'attackers': True, 'min_assets': 1}))
    c['analyse'] = True
    return c


def _enum(tier):
    variants = [node('or', viable=True, necessary=True), node('or', viable=False, necessary=True),
                node('and', viable=True, necessary=False), node('defense', 0.0, viable=True, necessary=True),
                node('defense', 1.0, viable=False, necessary=False)]
    pairs = [(i, j) for i in range(3) for j in range(3)]
    stride = 4 if tier == 'quick' else 1
    k = 0
    for combo in itertools.product(variants, repeat=3):
        nodes = []
        for i, d in enumerate(combo):
            d = dict(d)
            d['name'] = f's{i}'
            nodes.append(d)
        for mask in range(1 << 9):
            k += 1
            if k % stride:
                continue
            edges = [[i, j] for b, (i, j) in enumerate(pairs) if mask >> b & 1]
            yield {'graph': {'nodes': nodes, 'edges': edges, 'attackers': [{'name': 'A', 'reached': [0, 1, 2]}]},
                   'analyse': False}


CLAUSES = [
    Clause('three-node-graphs', check_case, kind='exhaustive', enumerate=_enum,
           space='all 3-node graphs over 5 labelled node variants x all 2^9 edge sets, one attacker on all nodes (quick tier: every 4th graph)'),
    Clause('random-labels', check_case, kind='random', strategy=cases, budget={'quick': 8000, 'thorough': 240000}),
    Clause('analysed-graphs', check_case, kind='random', strategy=analysed_cases, budget={'quick': 4000, 'thorough': 90000}),
    Clause('generated-graphs', check_case, kind='random', strategy=generated_cases, budget={'quick': 1500, 'thorough': 45000}),
]
