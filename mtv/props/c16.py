"""C16 - graph generation is deterministic and does not disturb its inputs."""
from __future__ import annotations

import copy
import hashlib
import json
import os
import subprocess
import sys
import zipfile

from hypothesis import strategies as st

from ..driver import Clause, Outcome
from .. import env
from ..env import worker_tmp
from ..langgen import lang_classes
from ..modelgen import lang_and_model, build_language, build_model
from .. import malprint
from .c01 import generate_graph

PROPERTY = 'C16'
RULE = ('(language, model) pairs from G_lang x G_model (with attackers) x {same process twice, fresh processes} x '
        'PYTHONHASHSEED in {0,1,2,4242} x {direct API, create_attack_graph with a .mar written by the harness and a '
        'json/yml model file, create_attack_graph with the .mal text printed by the harness printer}. Oracle: '
        'differential between runs - the canonical JSON of AttackGraph._to_dict() (ids, names, attributes, edges, '
        'attackers) must be identical across all configurations; Model._to_dict() and the specification dict must '
        'equal their snapshots after generation, attachment and analysis; two graphs built from the same model '
        'share no node object. The fresh processes also run the wrapper from both file kinds and their results must agree across hash seeds. Fresh processes are batched (one child interpreter per hash seed per batch). '
        'Non-trivial: the language has a set operator and an extended (+>) step and the graph has an edge.')
ASSUMPTIONS = ['hash seeds are sampled, not exhausted',
               'defense values are given as floats (the value type an instance-model file yields), so that the in-memory model and the model loaded by the wrapper are the same model',
               'the wrapper is compared with the API run that also attaches attackers and analyses']

HASH_SEEDS = ['0', '1', '2', '4242']


def _digest(d):
    return hashlib.sha256(json.dumps(d, sort_keys=True, default=str).encode()).hexdigest()


def _api_graph(spec, mdesc, spec_obj=None):
    from maltoolbox.attackgraph.analyzers.apriori import calculate_viability_and_necessity
    lg, model, objs, g, err, msg = generate_graph(spec, mdesc)
    if err:
        return None, None, None, err
    g.attach_attackers()
    calculate_viability_and_necessity(g)
    return lg, model, g, None


def _nontrivial(spec, g):
    cl = lang_classes(spec)
    return 'lang:setop' in cl and 'lang:extend' in cl and any(n.children for n in g.nodes)


def check_inprocess(case) -> Outcome:
    """same process: twice, inputs undisturbed, no shared nodes, wrapper paths"""
    from maltoolbox.attackgraph import AttackGraph
    from maltoolbox.language import LanguageGraph, LanguageClassesFactory
    from maltoolbox.attackgraph.analyzers.apriori import calculate_viability_and_necessity
    from maltoolbox.wrappers import create_attack_graph
    out = Outcome()
    spec, mdesc = case['spec'], copy.deepcopy(case['model'])
    for a in mdesc['assets']:
        # the model file stores defense values as floats; use the same representation in memory
        a['defenses'] = {k: float(v) for k, v in a['defenses'].items()}
    spec_in = copy.deepcopy(spec)
    try:
        lg = LanguageGraph(spec_in)
        cf = LanguageClassesFactory(lg)
        model, objs = build_model(cf, spec, mdesc)
    except Exception as e:
        out.classes.append('skipped:' + type(e).__name__)
        return out
    m_before = json.dumps(model._to_dict(), sort_keys=True, default=str)
    from .c01 import _Guard, BudgetExceeded
    try:
        with _Guard(len(objs)):
            g1 = AttackGraph(lg, model)
            g2 = AttackGraph(lg, model)
    except (BudgetExceeded, RecursionError, MemoryError):
        out.classes.append('skipped:generation-does-not-terminate')
        return out
    except Exception as e:
        out.classes.append('skipped:' + type(e).__name__)
        return out
    out.nontrivial = _nontrivial(spec, g1)
    d1, d2 = g1._to_dict(), g2._to_dict()
    if _digest(d1) != _digest(d2):
        out.add('same-process:second-generation-differs', '')
    if {id(n) for n in g1.nodes} & {id(n) for n in g2.nodes}:
        out.add('two-graphs-share-node-objects', '')
    for g in (g1, g2):
        g.attach_attackers()
        calculate_viability_and_necessity(g)
    if _digest(g1._to_dict()) != _digest(g2._to_dict()):
        out.add('same-process:differs-after-attach-and-analysis', '')
    if json.dumps(model._to_dict(), sort_keys=True, default=str) != m_before:
        out.add('model-changed-by-generation-or-analysis', '')
    if spec_in != spec:
        out.add('specification-changed-by-generation', '')
    ref = _digest(g1._to_dict())
    # ---- wrapper paths ------------------------------------------------------------------------
    d = worker_tmp('c16')
    fmt = ['json', 'yml'][case['fmt'] % 2]
    mpath = os.path.join(d, 'model.' + fmt)
    try:
        model.save_to_file(mpath)
    except Exception as e:
        out.classes.append('skipped-wrapper:save:' + type(e).__name__)
        return out
    mar = os.path.join(d, 'lang.mar')
    with zipfile.ZipFile(mar, 'w') as z:
        z.writestr('langspec.json', json.dumps(spec))
    for f in os.listdir(d):
        if f.endswith('.mal'):
            os.unlink(os.path.join(d, f))
    mal = malprint.write_layout(spec, d, None, {})
    # the reference for the wrapper runs: the direct API on the model as the file describes it (a YAML
    # file lists the assets sorted by id, which is the order the wrapper sees)
    try:
        from maltoolbox.model import Model
        lmodel = Model.load_from_file(mpath, cf)
        with _Guard(len(objs)):
            gl = AttackGraph(lg, lmodel)
        gl.attach_attackers()
        calculate_viability_and_necessity(gl)
        ref = _digest(gl._to_dict())
        g1 = gl
    except Exception as e:
        out.classes.append('skipped-wrapper:load:' + type(e).__name__)
        return out
    for kind, lang_file in (('mar', mar), ('mal', mal)):
        try:
            gw = create_attack_graph(lang_file, mpath)
        except BaseException as e:  # the wrapper calls sys.exit on some errors
            out.add(f'wrapper-{kind}:raises', f'{type(e).__name__}: {e}')
            continue
        if _digest(gw._to_dict()) != ref:
            out.add(f'wrapper-{kind}:graph-differs-from-api', _first_diff(gw._to_dict(), g1._to_dict()))
        out.classes.append('wrapper:' + kind)
    return out


def _first_diff(a, b):
    for sec in ('attack_steps', 'attackers'):
        if set(a[sec]) != set(b[sec]):
            return f'{sec} keys {sorted(a[sec])[:6]} != {sorted(b[sec])[:6]}'
        for k in a[sec]:
            if a[sec][k] != b[sec][k]:
                return f'{sec}[{k}]: {a[sec][k]} != {b[sec][k]}'[:500]
    return ''


def check_fresh_processes(case) -> Outcome:
    """a batch of pairs, one child interpreter per hash seed"""
    out = Outcome()
    batch = case['batch']
    d = worker_tmp('c16')
    bf = os.path.join(d, 'batch.json')
    with open(bf, 'w') as f:
        json.dump(batch, f)
    results = {}
    for hs in HASH_SEEDS:
        e = dict(os.environ)
        e['PYTHONHASHSEED'] = hs
        e['PYTHONPATH'] = env.VERIF_DIR
        e['VERIF_REPO'] = env.REPO
        e['VERIF_SCRATCH_BASE'] = d
        p = subprocess.run([sys.executable, '-m', 'mtv.c16_child', bf], capture_output=True, text=True,
                           env=e, cwd=d, timeout=600)
        line = next((ln for ln in p.stdout.splitlines() if ln.startswith('DIGESTS ')), None)
        if line is None:
            raise RuntimeError(f'child failed: {p.stderr[-1500:]}')
        results[hs] = json.loads(line[8:])
    # in-process reference
    mine = []
    for c in batch:
        lg, model, g, err = _api_graph(c['spec'], c['model'])
        mine.append('error' if err else _digest(g._to_dict()))
        if g is not None and _nontrivial(c['spec'], g):
            out.nontrivial = True
    for i in range(len(batch)):
        vals = {hs: results[hs][i][0] for hs in HASH_SEEDS}
        if any(v.startswith('error') for v in vals.values()) or mine[i] == 'error':
            out.classes.append('skipped:generation-error')
            continue
        if len(set(vals.values())) != 1:
            out.add('graph-depends-on-hash-seed', f'pair {i}: {vals}')
        elif vals['0'] != mine[i]:
            out.add('fresh-process-differs-from-harness-process', f'pair {i}')
        # the file-based wrapper in the fresh processes (from the .mar and from the printed .mal)
        for k, kind in ((1, 'mar'), (2, 'mal')):
            wv = {hs: results[hs][i][k] for hs in HASH_SEEDS if len(results[hs][i]) > k}
            if len(wv) != len(HASH_SEEDS) or any(v.startswith('error') for v in wv.values()):
                out.classes.append(f'skipped:wrapper-{kind}-error')
                continue
            if len(set(wv.values())) != 1:
                out.add(f'wrapper-{kind}:graph-depends-on-hash-seed', f'pair {i}: {wv}')
    return out


@st.composite
def inprocess_cases(draw):
    c = draw(lang_and_model({'max_assets': 5, 'max_expr_depth': 2, 'deep_chains': draw(st.booleans())},
                            {'max_assets': 5, 'attackers': True, 'explicit_ids': True, 'min_assets': 1}))
    c['fmt'] = draw(st.integers(0, 1))
    return c


@st.composite
def batches(draw):
    return {'batch': draw(st.lists(lang_and_model({'max_assets': 4, 'max_expr_depth': 2},
                                                  {'max_assets': 5, 'attackers': True, 'min_assets': 1}),
                                   min_size=6, max_size=6))}


CLAUSES = [
    Clause('same-process-and-wrappers', check_inprocess, kind='random', strategy=inprocess_cases,
           budget={'quick': 1600, 'thorough': 16000}),
    Clause('fresh-processes-hash-seeds', check_fresh_processes, kind='random', strategy=batches,
           budget={'quick': 96, 'thorough': 1920}),
]
