"""C06 - a model can only hold what the language allows."""
from __future__ import annotations

from hypothesis import strategies as st

from ..driver import Clause, Outcome
from ..langgen import languages, lang_classes
from ..modelgen import assoc_class_name, build_language, defenses_of
from ..ref_lang import Lang
from ..ref_model import RefModel
from .c05 import TINY

PROPERTY = 'C06'
RULE = ('G_lang languages (inheritance, inherited defenses, duplicate association names, every multiplicity '
        'form) x lists of attempted constructions: defense values from {-0.1,0,0.3,1,1.0001,2} via '
        'constructor or assignment; association objects whose fields get assets of the declared type, a '
        'sub-type, a super-type or an unrelated type, max and max+1 members, an empty side, a repeated member, an already '
        'existing link (same pair in a new object, same object again). Oracle: namespace must expose every '
        'asset and association type with exactly the folded defenses and the two fields; the reference labels '
        'each attempt valid / invalid: valid must be accepted and visible in _to_dict(), invalid must raise '
        'and leave _to_dict() unchanged. Non-trivial: invalid attempts of >=2 different kinds and >=1 accepted '
        'link whose member is of a strict sub-type of the declared type.')
ASSUMPTIONS = ['python_jsonschema_objects validation is trusted third-party code; only its use is tested',
               'minimum multiplicities are not claimed by the property and not asserted']

DEF_VALUES = [-0.1, 0, 0.3, 1, 1.0001, 2, 0.0, 1.0]


def check_case(case) -> Outcome:
    from maltoolbox.model import Model
    out = Outcome()
    spec = case['spec'] if case.get('spec') is not None else TINY
    L = Lang(spec)
    out.classes += [c for c in lang_classes(spec) if c in ('lang:dup-assoc-name', 'lang:self-assoc', 'lang:depth>=3')]
    try:
        lg, cf = build_language(spec)
    except Exception as e:
        out.add('language-rejected', f'{type(e).__name__}: {e}')
        return out
    ns = cf.ns
    # ---- namespace: asset types and their defenses -------------------------------------------
    for t in L.order:
        if not hasattr(ns, t):
            out.add('asset-type-missing', t)
            continue
        try:
            obj = getattr(ns, t)(name='probe')
        except Exception as e:
            out.add('asset-type-not-instantiable', f'{t}: {type(e).__name__}: {e}')
            continue
        exp = defenses_of(L, t)
        props = getattr(obj, '_properties', None)
        if isinstance(props, dict):
            got = set(props) - {'id', 'type'}
            if got != set(exp):
                out.add('asset-class-properties', f'{t}: {sorted(got)} != defenses {sorted(exp)}')
        for d, dflt in exp.items():
            try:
                v = float(getattr(obj, d))
            except Exception as e:
                out.add('defense-missing', f'{t}.{d}: {type(e).__name__}')
                continue
            if v != dflt:
                out.add('defense-default', f'{t}.{d}: default {v} expected {dflt}')
        for s, sdef in L.fold(t).items():
            if sdef['type'] != 'defense':
                try:
                    getattr(obj, s)
                    out.add('non-defense-step-exposed', f'{t}.{s}')
                except AttributeError:
                    pass
        if str(obj.type) != t:
            out.add('asset-type-attribute', f'{t}: {obj.type}')
    # ---- namespace: association types -----------------------------------------------------------
    cls_names = []
    for k, a in enumerate(spec['associations']):
        try:
            n = cf.get_association_by_signature(a['name'], a['leftAsset'], a['rightAsset'])
        except Exception as e:
            out.add('association-signature-lookup', f'{a["name"]}: {type(e).__name__}: {e}')
            cls_names.append(None)
            continue
        cls_names.append(n)
        if n is None or not hasattr(ns, n):
            out.add('association-class-missing', f'{a["name"]} -> {n}')
            continue
        inst = getattr(ns, n)()
        props = getattr(inst, '_properties', None)
        if isinstance(props, dict) and set(props) != {a['leftField'], a['rightField']}:
            out.add('association-class-fields', f'{n}: {sorted(props)} != {[a["leftField"], a["rightField"]]}')
    if len({c for c in cls_names if c}) != len([c for c in cls_names if c]):
        out.add('association-classes-not-distinguishable', str(cls_names))
    if out.discrepancies:
        return out
    # ---- attempts -------------------------------------------------------------------------------
    model = Model('m', cf)
    ref = RefModel(L)
    objs = {}
    concrete = L.concrete()
    for t in concrete:
        for j in range(2):
            o = getattr(ns, t)(name=f'{t}{j}')
            model.add_asset(o)
            h = len(ref.assets)
            ref.add_asset(h, t, str(o.name), int(o.id))
            objs[h] = o
    kinds_invalid = set()
    sub_accept = False

    def snapshot():
        d = model._to_dict()
        return (sorted((int(k), str(v['name']), str(v['type']),
                        tuple(sorted((dk, float(dv)) for dk, dv in v.get('defenses', {}).items())))
                       for k, v in d['assets'].items()),
                sorted(str(sorted((c, sorted((str(f), tuple(sorted(int(i) for i in ids)))
                                             for f, ids in flds.items()))
                                  for c, flds in e.items() if c != 'extras')) for e in d['associations']))

    for att in case['attempts']:
        before = snapshot()
        if att[0] == 'defense':
            _, ti, di, vi, via = att
            if not concrete:
                continue
            t = concrete[ti % len(concrete)]
            dn = sorted(defenses_of(L, t))
            if not dn:
                continue
            d = dn[di % len(dn)]
            v = DEF_VALUES[vi % len(DEF_VALUES)]
            valid = 0 <= v <= 1
            try:
                if via:
                    o = getattr(ns, t)(name='x', **{d: v})
                else:
                    hs = [h for h in ref.live_assets() if ref.assets[h]['type'] == t]
                    o = objs[hs[0]]
                    setattr(o, d, v)
                raised = None
            except Exception as e:
                raised = e
            if valid and raised is not None:
                out.add('rejected-valid:defense-value', f'{t}.{d}={v}: {type(raised).__name__}')
            if not valid:
                kinds_invalid.add('defense-range')
                if raised is None:
                    out.add('accepted-invalid:defense-value', f'{t}.{d}={v}')
                elif snapshot() != before:
                    out.add('state-changed-by-rejected:defense-value', f'{t}.{d}={v}')
            if valid and raised is None and float(getattr(o, d)) != float(v):
                out.add('defense-value-not-stored', f'{t}.{d}={v} -> {getattr(o, d)}')
        elif att[0] == 'assoc':
            _, k, ls, rs = att
            if not spec['associations'] or not ref.assets:
                continue
            k = k % len(spec['associations'])
            a = spec['associations'][k]
            live = ref.live_assets()

            def pick(i, declared):
                # even i: a well-typed candidate when one exists; odd i: any asset
                good = [h for h in live if L.is_sub(ref.assets[h]['type'], declared)]
                if i % 2 == 0 and good:
                    return good[(i // 2) % len(good)]
                return live[(i // 2) % len(live)]
            left = [pick(i, a['leftAsset']) for i in ls]
            right = [pick(i, a['rightAsset']) for i in rs]
            verdict = ref.verdict_add_assoc(spec, k, left, right)
            try:
                obj = getattr(ns, cls_names[k])()
                setattr(obj, a['leftField'], [objs[h] for h in left])
                setattr(obj, a['rightField'], [objs[h] for h in right])
                model.add_association(obj)
                raised = None
            except Exception as e:
                raised = e
            if verdict is None:
                if raised is not None:
                    out.add('rejected-valid:association', f'{cls_names[k]} {left} {right}: {type(raised).__name__}: {raised}')
                else:
                    h = len(ref.assocs)
                    ref.assocs[h] = {'k': k, 'left': left, 'right': right, 'live': True}
                    if any(ref.assets[m]['type'] != a['leftAsset'] for m in left) or \
                            any(ref.assets[m]['type'] != a['rightAsset'] for m in right):
                        sub_accept = True
            else:
                kinds_invalid.add(verdict)
                if raised is None:
                    out.add(f'accepted-invalid:association:{verdict}', f'{cls_names[k]} {left} {right}')
                elif snapshot() != before:
                    out.add(f'state-changed-by-rejected:association:{verdict}', '')
        if out.discrepancies:
            return out
    # ---- final invariant -------------------------------------------------------------------------
    d = model._to_dict()
    exp_assocs = sorted((assoc_class_name(spec, ref.assocs[h]['k']),
                         tuple(sorted(ref.assets[m]['id'] for m in ref.assocs[h]['left'])),
                         tuple(sorted(ref.assets[m]['id'] for m in ref.assocs[h]['right'])))
                        for h in ref.live_assocs())
    got_assocs = []
    for e in d['associations']:
        cls = [c for c in e if c != 'extras'][0]
        k = cls_names.index(cls)
        a = spec['associations'][k]
        got_assocs.append((cls, tuple(sorted(int(i) for i in e[cls][a['leftField']])),
                           tuple(sorted(int(i) for i in e[cls][a['rightField']]))))
    if sorted(got_assocs) != exp_assocs:
        out.add('final-associations-differ', f'{sorted(got_assocs)} != {exp_assocs}')
    id2type = {ref.assets[h]['id']: ref.assets[h]['type'] for h in ref.assets}
    pairs = set()
    for cls, ls, rs in got_assocs:
        a = spec['associations'][cls_names.index(cls)]
        for ids, typ, mult in ((ls, a['leftAsset'], a['leftMultiplicity']), (rs, a['rightAsset'], a['rightMultiplicity'])):
            if len(set(ids)) != len(ids):
                out.add('model-holds:repeated-member', cls)
            if mult['max'] is not None and len(ids) > mult['max']:
                out.add('model-holds:over-full-field', cls)
            for i in ids:
                if not L.is_sub(id2type[i], typ):
                    out.add('model-holds:mistyped-member', f'{cls}: {id2type[i]} in field of {typ}')
        for l in ls:
            for r in rs:
                if (cls, l, r) in pairs:
                    out.add('model-holds:repeated-link', cls)
                pairs.add((cls, l, r))
    for aid, ad in d['assets'].items():
        for dn, dv in ad.get('defenses', {}).items():
            if not 0 <= float(dv) <= 1:
                out.add('model-holds:defense-out-of-range', f'{dn}={dv}')
    out.classes += ['invalid:' + k for k in sorted(kinds_invalid)]
    if sub_accept:
        out.classes.append('subtype-accepted')
    out.nontrivial = len(kinds_invalid) >= 2 and sub_accept
    return out


def _attempts(n):
    small = st.integers(0, 9)
    return st.lists(st.one_of(
        st.tuples(st.just('defense'), small, small, st.integers(0, len(DEF_VALUES) - 1), st.booleans()),
        st.tuples(st.just('assoc'), small, st.lists(st.integers(0, 15), min_size=1, max_size=3),
                  st.lists(st.integers(0, 15), min_size=1, max_size=3)),
        st.tuples(st.just('assoc'), small, st.lists(st.integers(0, 15), min_size=0, max_size=2),
                  st.lists(st.integers(0, 15), min_size=0, max_size=2)),
        st.tuples(st.just('assoc'), small, st.lists(st.integers(0, 7).map(lambda x: 2 * x), min_size=1, max_size=2),
                  st.lists(st.integers(0, 7).map(lambda x: 2 * x), min_size=1, max_size=2)),
    ).map(list), min_size=1, max_size=n)


@st.composite
def cases(draw, n=12):
    spec = draw(languages(max_assets=5, min_assets=2, max_expr_depth=1, arith_ttc=False, deep_chains=draw(st.booleans())))
    return {'spec': spec, 'attempts': draw(_attempts(n))}


@st.composite
def tiny_cases(draw, n=14):
    return {'spec': None, 'attempts': draw(_attempts(n))}


CLAUSES = [
    Clause('generated-languages', check_case, kind='random', strategy=lambda: cases(12),
           budget={'quick': 5000, 'thorough': 120000}),
    Clause('tiny-language', check_case, kind='random', strategy=lambda: tiny_cases(14),
           budget={'quick': 2000, 'thorough': 45000}),
]
