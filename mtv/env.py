"""Process environment for the checks.

* the code under test is imported from VERIF_REPO (default /repo), placed first on sys.path, so the
  checks always see the current working tree (or a scratch copy in the mutation audit);
* `import maltoolbox` creates tmp/log.txt relative to the cwd and create_attack_graph writes
  tmp/*.yml there, so every process first chdir()s into a private scratch directory;
* logging of the package is disabled (it only costs I/O; no behaviour depends on it).
"""
from __future__ import annotations

import atexit
import logging
import os
import shutil
import sys
import tempfile

VERIF_DIR = os.path.dirname(os.path.dirname(os.path.abspath(__file__)))
REPO = os.path.abspath(os.environ.get('VERIF_REPO', '/repo'))
GUARD = 'MAL_TOOLBOX_VERIF'

_scratch = None
_owner_pid = None


def scratch_dir() -> str:
    """Private scratch directory of this process tree (created on first use, removed at exit of
    the process that created it)."""
    global _scratch, _owner_pid
    if _scratch is None:
        base = os.environ.get('VERIF_SCRATCH_BASE') or tempfile.gettempdir()
        _scratch = tempfile.mkdtemp(prefix='mtv-', dir=base)
        _owner_pid = os.getpid()
        atexit.register(_cleanup)
    return _scratch


def _cleanup():
    if _scratch and _owner_pid == os.getpid():
        try:
            os.chdir('/')
        except OSError:
            pass
        shutil.rmtree(_scratch, ignore_errors=True)


def setup():
    """chdir into the scratch directory, put the repository first on sys.path, import the package."""
    os.environ[GUARD] = '1'
    d = scratch_dir()
    os.chdir(d)
    if sys.path[0] != REPO:
        sys.path.insert(0, REPO)
    import maltoolbox  # noqa: F401  (creates ./tmp/log.txt inside the scratch dir)
    got = os.path.dirname(os.path.dirname(os.path.abspath(maltoolbox.__file__)))
    if os.path.realpath(got) != os.path.realpath(REPO):
        raise RuntimeError(f'maltoolbox imported from {got}, expected {REPO}')
    logging.disable(logging.CRITICAL)
    sys.setrecursionlimit(3000)
    return d


def worker_tmp(name: str) -> str:
    """A fresh sub-directory of the scratch dir, unique per process."""
    p = os.path.join(scratch_dir(), f'{name}-{os.getpid()}')
    os.makedirs(p, exist_ok=True)
    return p
