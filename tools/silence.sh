#!/bin/bash
# run every registered quick check at several seeds on the unchanged tree; any non-zero exit is a problem
cd "$(dirname "$0")/.."
SEEDS="${@:-2 3 4 5 6}"
for s in $SEEDS; do
  for i in 01 02 03 04 05 06 07 08 09 10 11 12 13 14 15 16 17 18 19; do
    out=$(VERIF_SEED=$s timeout 1200 ./check C$i 2>&1); rc=$?
    echo "seed=$s C$i rc=$rc $(echo "$out" | tail -1)"
    if [ $rc -ne 0 ]; then echo "$out" | grep -E "VIOLATION|signature|HARNESS" | head -5; fi
  done
done
