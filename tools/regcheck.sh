#!/bin/bash
# usage: tools/regcheck.sh <ID> [orig-tree]   -- each regression must FAIL on the original tree and PASS on /repo
ID=$1; ORIG=${2:-/tmp/scratch/orig}
cd "$(dirname "$0")/.."
for f in corpus/regressions/$ID/*.json; do
  o=$(VERIF_REPO=$ORIG timeout 300 ./check $ID --replay $f 2>&1 | grep -E "discrepancy|HARNESS" | head -2 | tr '\n' ' ' | cut -c1-150)
  n=$(timeout 300 ./check $ID --replay $f 2>&1 | tail -1 | cut -c1-100)
  echo "$(basename $f): ORIG[$o] NOW[$n]"
done
