"""print a replay / case compactly"""
import json, sys
d = json.load(open(sys.argv[1]))
c = d.get('case', d)
print('signature:', d.get('signature'), '\nmessage:', (d.get('message') or '')[:600])
def show_spec(spec):
    for a in spec['assets']:
        print(' asset', a['name'], 'extends', a['superAsset'], 'abstract' if a['isAbstract'] else '',
              [(v['name'], json.dumps(v['stepExpression'])) for v in a['variables']])
        for s in a['attackSteps']:
            print('    step', s['name'], s['type'], 'ttc=', json.dumps(s['ttc']), 'req=', json.dumps(s['requires']), '\n        reaches=', json.dumps(s['reaches']))
    for a in spec['associations']:
        print(' assoc', a['name'], a['leftAsset'], '[%s]' % a['leftField'], a['leftMultiplicity'], '<-->', a['rightMultiplicity'], '[%s]' % a['rightField'], a['rightAsset'])
if isinstance(c, dict) and 'spec' in c:
    show_spec(c['spec'])
    rest = {k: v for k, v in c.items() if k != 'spec'}
    print(' rest', json.dumps(rest)[:3000])
else:
    print(json.dumps(c)[:4000])
