import re, json, sys
n = 0
for l in open(sys.argv[1] if len(sys.argv) > 1 else '/tmp/seedeval.log'):
    m = re.match(r'(C\d\d-[a-j]) (\{.*?\}) (\{.*)', l)
    if m:
        n += 1
        r = json.loads(m.group(2))
        ok = r.get('repo_tests_pass') and r.get('demo_with_change_rc') and r.get('demo_without_change_rc') == 0 and r.get('caught_tier') == 'quick'
        if not ok:
            print(m.group(1), 'tests', r.get('repo_tests_pass'), 'demo', r.get('demo_with_change_rc'), r.get('demo_without_change_rc'),
                  'caught', r.get('caught_tier'), m.group(3)[:140])
print(n, 'done')
