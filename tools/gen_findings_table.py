"""Refreshes the table of repaired defects in DESIGN.md section 6.3 from known_findings.json."""
import json, os, re
V = os.path.dirname(os.path.dirname(os.path.abspath(__file__)))
d = json.load(open(os.path.join(V, 'known_findings.json')))
rows = sorted(re.match(r'fixed: property=(C\d+) ([0-9a-f]+) (.*)', e).groups() for e in d['fixed'])
s = open(os.path.join(V, 'DESIGN.md')).read()
head = '| property | fix commit | what failed |\n|---|---|---|\n'
i = s.index(head) + len(head)
j = s.index('\n\n', i)
s = s[:i] + ''.join(f'| {p} | `{c}` | {w} |\n' for p, c, w in rows).rstrip('\n') + s[j:]
open(os.path.join(V, 'DESIGN.md'), 'w').write(s)
print(len(rows), 'rows')
