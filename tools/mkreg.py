"""Hand-minimised regression cases for the defects that were repaired (see known_findings.json).
Writes corpus/regressions/<ID>/*.json; each is replayed first by every run of ./check <ID>."""
import json, os, sys
sys.path.insert(0, os.path.dirname(os.path.dirname(os.path.abspath(__file__))))
from mtv.tinylang import *

ROOT = os.path.join(os.path.dirname(os.path.dirname(os.path.abspath(__file__))), 'corpus', 'regressions')
ALL = {}

def A(t, n, id=None, defenses=None):
    return {'type': t, 'name': n, 'id': id, 'defenses': defenses or {}}

def model(assets, links):
    return {'assets': assets, 'links': [{'assoc': k, 'left': l, 'right': r} for k, l, r in links], 'attackers': []}

two = [assoc('L1', 'Host', 'h1', 'Data', 'b1'), assoc('L2', 'Host', 'h2', 'Data', 'b2')]
def setlang(o):
    return lang([asset('Host', [step('access', reaches=[col(op(o, F('b1'), F('b2')), S('copy'))])]),
                 asset('Data', [step('copy')])], two)
seq = [assoc('Seq', 'Host', 'prev', 'Host', 'nxt')]
def seqlang(e):
    return lang([asset('Host', [step('access', reaches=[col(e, S('access'))])])], seq)

ALL['C01'] = {
    'union-empty-left-operand': ('random', {'spec': setlang('union'), 'model': model([A('Host', 'a'), A('Data', 'b1')], [(1, [0], [1])])}),
    'union-shared-element': ('random', {'spec': setlang('union'), 'model': model([A('Host', 'a'), A('Data', 'b1'), A('Data', 'b2')], [(0, [0], [1]), (1, [0], [1]), (1, [0], [2])])}),
    'difference-shared-element': ('random', {'spec': setlang('difference'), 'model': model([A('Host', 'a'), A('Data', 'b1')], [(0, [0], [1]), (1, [0], [1])])}),
    'difference-disjoint': ('random', {'spec': setlang('difference'), 'model': model([A('Host', 'a'), A('Data', 'b1'), A('Data', 'b2')], [(0, [0], [1]), (1, [0], [2])])}),
    'transitive-two-cycle': ('random', {'spec': seqlang(star(F('nxt'))), 'model': model([A('Host', 'h0'), A('Host', 'h1')], [(0, [0], [1]), (0, [1], [0])])}),
    'transitive-self-link-fanout': ('random', {'spec': seqlang(star(F('nxt'))), 'model': model([A('Host', 'h0'), A('Host', 'h1')], [(0, [0], [0]), (0, [0], [1]), (0, [1], [1]), (0, [1], [0])])}),
    'transitive-parenthesised-operand': ('random', {'spec': seqlang(star(op('union', F('nxt'), F('prev')))), 'model': model([A('Host', 'h0'), A('Host', 'h1')], [(0, [0], [1])])}),
    'self-link-through-left-field': ('random', {'spec': seqlang(F('prev')), 'model': model([A('Host', 'h0')], [(0, [0], [0])])}),
    'language-without-associations': ('random', {'spec': lang([asset('Host', [step('access', reaches=[S('breach')]), step('breach')])], []), 'model': model([A('Host', 'h0')], [])}),
    # Host.access has no reaches; Net '+>' data.access; User '+>' access: User's extension must not leak into Net
    'extend-alias-leaks-to-parent': ('random', {'spec': lang(
        [asset('Host', [step('access')]),
         asset('Net', [step('access', reaches=[col(F('data'), S('access'))], overrides=False)], parent='Host'),
         asset('User', [step('access', reaches=[S('access')], overrides=False)], parent='Net')],
        [assoc('Conn', 'Net', 'users', 'Net', 'data')]),
        'model': model([A('Net', 'n0'), A('User', 'n1')], [])}),
    # (hosts \/ nets)[User]: operands Net-typed and User-typed, common ancestor Host
    'setop-common-ancestor-subtype': ('random', {'spec': lang(
        [asset('App', [step('access', reaches=[col(sub('User', op('union', F('nets'), F('users'))), S('breach'))])]),
         asset('Host', [step('breach')]),
         asset('Net', [], parent='Host'),
         asset('User', [], parent='Host')],
        [assoc('HasN', 'App', 'owner1', 'Net', 'nets'), assoc('HasU', 'App', 'owner2', 'User', 'users')]),
        'model': model([A('App', 'a'), A('Net', 'n'), A('User', 'u')], [(0, [0], [1]), (1, [0], [2])])}),
}

one = lang([asset('Host', [step('access')])], [assoc('Seq', 'Host', 'prev', 'Host', 'nxt')])
ALL['C02'] = {
    'rename-collides-with-existing-name': ('random', {'spec': one, 'model': model(
        [A('Host', 'a'), A('Host', 'a:2'), A('Host', 'a')], [])}),
    'explicit-id-zero-after-other-assets': ('random', {'spec': one, 'model': model(
        [A('Host', 'n0', 7), A('Host', 'n1', 0), A('Host', 'n2'), A('Host', 'n3'), A('Host', 'n4', 10)], [])}),
}

def H(ops, clause='tiny-language-histories'):
    return (clause, {'spec': None, 'ops': ops})

ALL['C05'] = {
    'id-of-removed-asset-is-reusable': H([['add_asset', 0, 0, 0, True], ['remove_asset', 0], ['add_asset', 2, 1, 1, True]]),
    'name-of-removed-asset-is-reusable': H([['add_asset', 0, 0, 0, True], ['remove_asset', 0], ['add_asset', 1, 0, 0, True]]),
    'remove-asset-with-self-link': H([['add_asset', 0, 0, 0, True], ['add_assoc', 1, [0], [1]], ['remove_asset', 0]]),
    'remove-from-multi-member-field-back-reference': H([['add_asset', 0, 0, 0, True], ['add_asset', 0, 1, 0, True], ['add_asset', 2, 3, 0, True],
                                                       ['add_assoc', 0, [0, 1], [0]], ['remove_from_assoc', 1, 0]]),
    'rejected-add-asset-keeps-id-free': H([['add_asset', 0, 0, 0, True], ['add_asset', 0, 0, 4, False], ['add_asset', 0, 1, 4, True]]),
    'explicit-id-zero-honoured': H([['add_asset', 0, 0, 4, True], ['add_asset', 0, 1, 1, True]]),
    'self-link-neighbours-both-fields': H([['add_asset', 0, 0, 0, True], ['add_assoc', 1, [0], [0]]]),
    'remove-asset-reflexive-multi-member': H([['add_asset', 0, 0, 0, True], ['add_asset', 0, 1, 0, True],
                                              ['add_assoc', 1, [0, 1], [0, 1]], ['remove_asset', 0]]),
}

ALL['C03'] = {
    'extend-alias-history': ('histories', {'spec': ALL['C01']['extend-alias-leaks-to-parent'][1]['spec'],
                                           'ops': [['lookup', 2], ['lookup', 1], ['newgraph'], ['attackgraph']]}),
}

seqlang1 = lang([asset('Host', [step('access'), step('guard', 'defense', ttc=fun('Enabled'))])],
                [assoc('Seq', 'Host', 'prev', 'Host', 'nxt')])
ALL['C07'] = {
    'association-extras-json': ('roundtrip', {'spec': seqlang1, 'model': model([A('Host', 'h0'), A('Host', 'h1')], [(0, [0], [1])]),
                                              'removals': [], 'link_extras': [[0, {'x': 1}]], 'fmt': 0, 'mname': 'm'}),
    'association-extras-yaml': ('roundtrip', {'spec': seqlang1, 'model': model([A('Host', 'h0'), A('Host', 'h1')], [(0, [0], [1])]),
                                              'removals': [], 'link_extras': [[0, {'note': 'yes'}]], 'fmt': 1, 'mname': 'm'}),
    'id-zero-not-first-in-file': ('handwritten-files', {'spec': seqlang1, 'mname': 'hand', 'fmt': 1, 'links': [{'assoc': 0, 'left': [0], 'right': [5], 'scalar': False}],
        'attackers': [{'id': 40, 'name': 'Att0', 'entry_points': [[0, ['access']]]}],
        'assets': [{'id': 5, 'name': 'p', 'type': 'Host', 'shorthand': False, 'defenses': {}, 'extras': None},
                   {'id': 0, 'name': 'q', 'type': 'Host', 'shorthand': False, 'defenses': {'guard': 0.5}, 'extras': None}]}),
}

# ---- attack-graph level (hand-built graph descriptions, see mtv/aggen.py) -----------------------------
from mtv.aggen import node as N, DIST

def G(nodes, edges, attackers=None):
    nodes = [dict(n, name=f's{i}') for i, n in enumerate(nodes)]
    return {'nodes': nodes, 'edges': edges, 'attackers': attackers or []}

ALL['C08'] = {
    'or-step-with-self-loop-and-nonviable-parent': ('random-graphs', {'graph': G([N('or'), N('exist', False)], [[0, 0], [1, 0]]), 'orders': [[0, 1], [1, 0]]}),
    'and-step-with-self-loop-and-unnecessary-parent': ('random-graphs', {'graph': G([N('and'), N('exist', True)], [[0, 0], [1, 0]]), 'orders': [[0, 1], [1, 0]]}),
    'ttc-gated-parent-node-order': ('random-graphs', {'graph': G([N('exist', True), N('or', ttc=DIST), N('and')], [[0, 1], [0, 2], [1, 2]]),
                                                      'orders': [[0, 1, 2], [2, 1, 0], [1, 0, 2]], 'edge_orders': [None, [2, 1, 0], [1, 2, 0]]}),
}
FIX = {'nodes': [N('defense', 1.0, name='d'), N('or', name='a'), N('and', name='b'), N('or', name='c')],
       'edges': [[0, 1], [1, 2], [0, 2], [2, 3], [3, 3], [1, 3], [1, 3]], 'attackers': [{'name': 'Att0', 'reached': [1, 2, 3]}]}
def H9(ops):
    return ('hand-built-graph-histories', {'start': 'ag', 'graph': FIX, 'ops': ops})
gen_case = {'start': 'gen', 'spec': seqlang1, 'model': dict(model([A('Host', 'h0'), A('Host', 'h1')], [(0, [0], [1])]),
            attackers=[{'name': 'Attacker0', 'id': None, 'entry_points': [[0, ['access']]]}])}
ALL['C09'] = {
    'add-node-with-live-id': H9([['add_node', 2, 1]]),
    'remove-node-reached-by-attacker': H9([['remove_node', 1]]),
    'remove-attacker-with-three-reached-steps': H9([['remove_attacker', 0]]),
    'prune-node-reached-by-attacker': H9([['analyse'], ['prune']]),
    'regenerate-after-attach-and-add': ('generated-graph-histories', dict(gen_case, ops=[['attach'], ['add_node', 0, 0], ['regen']])),
}
ALL['C11'] = {
    'remove-attacker-with-three-reached-steps': ('hand-built-graphs', {'start': 'ag', 'graph': FIX, 'ops': [['remove', 0]]}),
}
ALL['C13'] = {
    'two-adjacent-prunable-nodes': ('random-labels', {'graph': G([N('or', viable=False), N('or', viable=False), N('or')], [[0, 1], [1, 2]]), 'analyse': False}),
    'prunable-node-reached-by-attacker': ('random-labels', {'graph': G([N('or', viable=False), N('or')], [[0, 1]], [{'name': 'A', 'reached': [0, 1]}]), 'analyse': False}),
}
ALL['C14'] = {
    'ttc-dict-shared-with-copy': ('hand-built-graphs', {'start': 'ag', 'graph': G([N('or', ttc=dict(DIST), tags=['x'])], [], [{'name': 'A', 'reached': [0]}]),
                                                        'mutations': [[0, 'ttc', 0, 0], [1, 'tag', 0, 0]]}),
}
tagl = lang([asset('Host', [step('access', tags=['hidden', 'trace'], reaches=[S('breach')]), step('breach', 'and'),
                            step('guard', 'defense', ttc=fun('Enabled'), reaches=[S('breach')])])],
            [assoc('Seq', 'Host', 'prev', 'Host', 'nxt')])
base10 = {'spec': tagl, 'model': dict(model([A('Host', 'h0')], []), attackers=[]), 'attach': False, 'compromises': [], 'analyse': True,
          'prune': False, 'node_extras': [], 'fmt': 0, 'with_model': 0}
ALL['C10'] = {
    'tags-come-back-as-list': ('roundtrip', dict(base10, extra_attackers=[])),
    'two-attackers-sharing-a-name': ('roundtrip', dict(base10, fmt=1, with_model=1, extra_attackers=[
        {'name': 'Eve', 'id': None, 'reached': [0, 1], 'n_entry': 1}, {'name': 'Eve', 'id': None, 'reached': [1], 'n_entry': 0}])),
}

ttcl = lang([asset('Host', [step('access', ttc={'type': 'multiplication', 'lhs': {'type': 'division', 'lhs': fun('Exponential', 0.1), 'rhs': fun('Gamma', 1.5, 2.0)},
                                             'rhs': {'type': 'number', 'value': 3.0}})])], [assoc('Seq', 'Host', 'prev', 'Host', 'nxt')])
ALL['C04'] = {
    'ttc-three-factor-chain': ('roundtrip', {'spec': ttcl, 'opts': {}}),
}
ALL['C15'] = {
    'association-with-both-ends-unknown': ('illformed', {'spec': seqlang1, 'mutation': [3, 0]}),
    'setop-common-ancestor-over-approximation': ('wellformed', {'spec': ALL['C01']['setop-common-ancestor-subtype'][1]['spec'],
                                                                'models': [ALL['C01']['setop-common-ancestor-subtype'][1]['model']]}),
}
ALL['C17'] = {
    'truncated-root-file': ('generated-programs', {'spec': seqlang1, 'layout': None, 'file': 0, 'mutation': ['truncate', 25, 0]}),
    'damaged-included-file': ('generated-programs', {'spec': seqlang1, 'layout': {'assign': [0, 0, 0, 0, 1, 1], 'parent': [0, 0], 'repeat': []},
                                                     'file': 0, 'mutation': ['truncate', 2, 0]}),
}

duplang = lang([asset('Host', [step('access'), step('breach')]), asset('Net', [], parent='Host'), asset('Data', [step('read')])],
               [assoc('Conn', 'Host', 'hosts', 'Host', 'nets'), assoc('Conn', 'Host', 'owners', 'Data', 'datas'),
                assoc('Owns', 'Host', 'users', 'Host', 'peers')])
def LA(i, t, n):
    return {'id': i, 'name': n, 'type': t, 'defenses': {}}
ALL['C18'] = {
    'scad-two-entry-points-on-one-asset': ('legacy-vs-native', {'spec': duplang, 'assets': [LA(0, 'Host', 'h')], 'links': [],
        'attackers': [{'id': 100, 'name': 'Attacker:100', 'entry_points': [[0, ['access', 'breach']]]}], 'enc': 2, 'orient': [1, 0]}),
    'scad-same-named-association-between-subtypes': ('legacy-vs-native', {'spec': duplang, 'assets': [LA(-4, 'Net', 'n1'), LA(5, 'Net', 'n2')],
        'links': [{'assoc': 0, 'left': [-4], 'right': [5]}], 'attackers': [], 'enc': 2, 'orient': [0]}),
}
ALL['C19'] = {
    'two-links-between-the-same-pair': ('export-import', {'spec': duplang, 'model': model([A('Host', 'n0'), A('Host', 'n1'), A('Data', 'd')],
                                                                                          [(0, [0], [1]), (2, [0], [1])])}),
    'self-link': ('export-import', {'spec': duplang, 'model': model([A('Host', 'n0')], [(2, [0], [0])])}),
    'same-named-association-between-subtypes': ('export-import', {'spec': duplang, 'model': model([A('Net', 'n0'), A('Net', 'n1'), A('Data', 'd')],
                                                                                                   [(0, [0], [1]), (1, [0], [2])])}),
    'opposite-links-of-reflexive-association': ('export-import', {'spec': duplang, 'model': model([A('Host', 'n0'), A('Host', 'n1'), A('Host', 'n2')],
                                                                                                   [(2, [0], [1]), (2, [1], [0])])}),
}

if __name__ == '__main__':
    for pid, cases in ALL.items():
        out = os.path.join(ROOT, pid)
        os.makedirs(out, exist_ok=True)
        for name, (clause, case) in cases.items():
            with open(os.path.join(out, name + '.json'), 'w') as f:
                json.dump({'clause': clause, 'case': case}, f, indent=1, sort_keys=True)
        print(pid, len(cases), 'written to', out)
