"""Evaluate seeded changes (patches that break a property while passing the repository's tests).

usage: tools/eval_seed.py <seed dir> [<seed dir> ...]      seed dir contains patch.diff, demo.py, meta.json
For each: scratch worktree of /repo HEAD outside /repo and /verif -> apply patch -> repository test suite ->
demo with / without the change -> ./check <ID> quick (thorough if quick misses) with VERIF_REPO=<scratch> ->
remove the worktree.  Appends a 'verification' section to meta.json in the seed dir.
"""
import json
import os
import re
import shutil
import subprocess
import sys
import time

VERIF = os.path.dirname(os.path.dirname(os.path.abspath(__file__)))
REPO = '/repo'
SCRATCH = os.environ.get('SEED_SCRATCH', '/var/tmp/seedeval')


# the repository's tests write to fixed /tmp paths: give every run a private /tmp (mount namespace)
PYTEST = "unshare -rm sh -c 'mount -t tmpfs tmpfs /tmp && /venv/bin/python -m pytest -q -p no:cacheprovider tests 2>&1'"


def sh(cmd, cwd=None, env=None, timeout=3600):
    p = subprocess.run(cmd, shell=True, cwd=cwd, env=env, capture_output=True, text=True, timeout=timeout)
    return p.returncode, p.stdout + p.stderr


def evaluate(seed_dir, extra_checks=()):
    seed_dir = os.path.abspath(seed_dir)
    meta_p = os.path.join(seed_dir, 'meta.json')
    meta = json.load(open(meta_p)) if os.path.exists(meta_p) else {}
    prop = meta.get('property') or re.search(r'C\d\d', seed_dir).group(0)
    name = os.path.basename(seed_dir.rstrip('/'))
    wt = os.path.join(SCRATCH, name + '-' + str(os.getpid()))
    os.makedirs(SCRATCH, exist_ok=True)
    sh(f'git -C {REPO} worktree remove --force {wt}')
    rc, out = sh(f'git -C {REPO} worktree add -q --detach {wt} HEAD')
    assert rc == 0, out
    res = {'property': prop, 'at_repo_commit': sh(f'git -C {REPO} rev-parse --short HEAD')[1].strip()}
    try:
        rc2, out2 = sh(f'timeout 600 /venv/bin/python {seed_dir}/demo.py', cwd=wt, env=dict(os.environ, PYTHONPATH=wt))
        res['demo_without_change_rc'] = rc2
        sh(f'git -C {wt} checkout -- . && git -C {wt} clean -fdq')
        rc, out = sh(f'git -C {wt} apply {seed_dir}/patch.diff')
        res['patch_applies'] = rc == 0
        if rc != 0:
            res['error'] = out[-500:]
            return res
        env = dict(os.environ, PYTHONPATH=wt)
        # private /tmp for the repository tests is not available; run them sequentially
        rc, out = sh(PYTEST + ' | tail -3', cwd=wt, timeout=1200)
        res['repo_tests'] = out.strip().splitlines()[-1] if out.strip() else ''
        res['repo_tests_pass'] = ' passed' in out and 'failed' not in out
        rc, out = sh(f'timeout 600 /venv/bin/python {seed_dir}/demo.py', cwd=wt, env=env)
        res['demo_with_change_rc'] = rc
        res['checks'] = {}
        for pid in [prop] + [c for c in extra_checks if c != prop]:
            for tier in ('quick', 'thorough'):
                t0 = time.time()
                rc, out = sh(f'./check {pid} --tier {tier}', cwd=VERIF, env=dict(os.environ, VERIF_REPO=wt, VERIF_SEED='1', VERIF_NO_REGRESSIONS='1'), timeout=7200)
                sigs = re.findall(r'signature=(\S+)', out)
                res['checks'][f'{pid}:{tier}'] = {'rc': rc, 'signatures': sorted(set(sigs))[:8], 'wall_s': round(time.time() - t0, 1)}
                if rc != 0 or pid != prop:
                    break
        own = [v for k, v in res['checks'].items() if k.startswith(prop + ':')]
        res['caught_by_own_check'] = any(v['rc'] == 1 for v in own)
        res['caught_tier'] = next((k.split(':')[1] for k, v in res['checks'].items() if k.startswith(prop) and v['rc'] == 1), None)
    finally:
        sh(f'git -C {REPO} worktree remove --force {wt}')
        shutil.rmtree(wt, ignore_errors=True)
    meta['verification'] = res
    with open(meta_p, 'w') as f:
        json.dump(meta, f, indent=1)
    return res


if __name__ == '__main__':
    extra = [a[8:] for a in sys.argv[1:] if a.startswith('--extra=')]
    extra = extra[0].split(',') if extra else []
    for d in [a for a in sys.argv[1:] if not a.startswith('--')]:
        r = evaluate(d, extra)
        print(os.path.basename(d.rstrip('/')), json.dumps({k: v for k, v in r.items() if k != 'checks'}),
              {k: (v['rc'], v['signatures'][:2]) for k, v in r.get('checks', {}).items()}, flush=True)
