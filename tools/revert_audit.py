"""Sensitivity audit: every repaired defect, re-introduced on its own.

For each 'fixed:' entry of known_findings.json: scratch worktree of /repo HEAD (outside /repo and /verif),
`git revert --no-commit <fix commit>`, repository test suite, then the property's quick check in
generated-search mode only (VERIF_NO_REGRESSIONS=1: the regression corpus is switched off, so the generators
and oracles have to find the defect again by themselves).  Writes mutants/REVERT_AUDIT.md.
"""
import json
import os
import re
import shutil
import subprocess
import sys
import time

VERIF = os.path.dirname(os.path.dirname(os.path.abspath(__file__)))
REPO = '/repo'
SCRATCH = '/var/tmp/revaudit'


# the repository's tests write to fixed /tmp paths: give every run a private /tmp (mount namespace)
PYTEST = "unshare -rm sh -c 'mount -t tmpfs tmpfs /tmp && /venv/bin/python -m pytest -q -p no:cacheprovider tests 2>&1'"


def sh(cmd, cwd=None, env=None, timeout=3600):
    p = subprocess.run(cmd, shell=True, cwd=cwd, env=env, capture_output=True, text=True, timeout=timeout)
    return p.returncode, p.stdout + p.stderr


def main():
    entries = json.load(open(os.path.join(VERIF, 'known_findings.json')))['fixed']
    only = set(sys.argv[1:])
    rows = []
    os.makedirs(SCRATCH, exist_ok=True)
    for e in entries:
        m = re.match(r'fixed: property=(C\d+) ([0-9a-f]{7,}) (.*)', e)
        if not m:
            continue
        prop, commit, what = m.groups()
        if only and commit not in only and prop not in only:
            continue
        wt = os.path.join(SCRATCH, commit)
        sh(f'git -C {REPO} worktree remove --force {wt}')
        rc, out = sh(f'git -C {REPO} worktree add -q --detach {wt} HEAD')
        row = {'property': prop, 'commit': commit, 'what': what[:110]}
        try:
            rc, out = sh(f'git -C {wt} revert --no-commit {commit}')
            if rc != 0:
                row['result'] = 'revert does not apply cleanly (later fixes touch the same lines)'
                rows.append(row)
                continue
            rc, out = sh(PYTEST + ' | tail -1', cwd=wt, timeout=1200)
            row['tests'] = out.strip()
            t0 = time.time()
            rc, out = sh(f'./check {prop} --tier quick', cwd=VERIF,
                         env=dict(os.environ, VERIF_REPO=wt, VERIF_NO_REGRESSIONS='1'), timeout=3600)
            row['rc'] = rc
            row['signatures'] = sorted(set(re.findall(r'signature=(\S+)', out)))[:5]
            row['wall_s'] = round(time.time() - t0, 1)
            row['result'] = 'DETECTED by generated search' if rc == 1 else ('harness error' if rc == 2 else 'MISSED')
        finally:
            sh(f'git -C {REPO} worktree remove --force {wt}')
            shutil.rmtree(wt, ignore_errors=True)
        rows.append(row)
        print(json.dumps(row), flush=True)
    os.makedirs(os.path.join(VERIF, 'mutants'), exist_ok=True)
    with open(os.path.join(VERIF, 'mutants', 'REVERT_AUDIT.md'), 'w') as f:
        f.write('# Revert audit: each repaired defect re-introduced alone (regression corpus off)\n\n')
        f.write('| property | fix commit | check result | signatures | repo tests | wall s | defect |\n|---|---|---|---|---|---|---|\n')
        for r in rows:
            f.write(f"| {r['property']} | {r['commit']} | {r.get('result')} | {', '.join(r.get('signatures', []))} | {r.get('tests', '')} | {r.get('wall_s', '')} | {r['what']} |\n")
    missed = [r for r in rows if r.get('result') == 'MISSED']
    print(f'{len(rows)} mutants, {len(missed)} missed')


if __name__ == '__main__':
    main()
