"""Hand-minimised regression cases for the C01 defects that were repaired (see known_findings.json).
Writes corpus/regressions/C01/*.json; each is replayed first by every run of ./check C01."""
import json, os, sys
sys.path.insert(0, os.path.dirname(os.path.dirname(os.path.abspath(__file__))))
from mtv.tinylang import *

OUT = os.path.join(os.path.dirname(os.path.dirname(os.path.abspath(__file__))), 'corpus', 'regressions', 'C01')
os.makedirs(OUT, exist_ok=True)

def A(t, n):
    return {'type': t, 'name': n, 'id': None, 'defenses': {}}

def model(assets, links):
    return {'assets': assets, 'links': [{'assoc': k, 'left': l, 'right': r} for k, l, r in links], 'attackers': []}

two = [assoc('L1', 'Host', 'h1', 'Data', 'b1'), assoc('L2', 'Host', 'h2', 'Data', 'b2')]
def setlang(o):
    return lang([asset('Host', [step('access', reaches=[col(op(o, F('b1'), F('b2')), S('copy'))])]),
                 asset('Data', [step('copy')])], two)
seq = [assoc('Seq', 'Host', 'prev', 'Host', 'nxt')]
def seqlang(e):
    return lang([asset('Host', [step('access', reaches=[col(e, S('access'))])])], seq)

cases = {
    'union-empty-left-operand': ('random', {'spec': setlang('union'), 'model': model([A('Host', 'a'), A('Data', 'b1')], [(1, [0], [1])])}),
    'union-shared-element': ('random', {'spec': setlang('union'), 'model': model([A('Host', 'a'), A('Data', 'b1'), A('Data', 'b2')], [(0, [0], [1]), (1, [0], [1]), (1, [0], [2])])}),
    'difference-shared-element': ('random', {'spec': setlang('difference'), 'model': model([A('Host', 'a'), A('Data', 'b1')], [(0, [0], [1]), (1, [0], [1])])}),
    'difference-disjoint': ('random', {'spec': setlang('difference'), 'model': model([A('Host', 'a'), A('Data', 'b1'), A('Data', 'b2')], [(0, [0], [1]), (1, [0], [2])])}),
    'transitive-two-cycle': ('random', {'spec': seqlang(star(F('nxt'))), 'model': model([A('Host', 'h0'), A('Host', 'h1')], [(0, [0], [1]), (0, [1], [0])])}),
    'transitive-self-link-fanout': ('random', {'spec': seqlang(star(F('nxt'))), 'model': model([A('Host', 'h0'), A('Host', 'h1')], [(0, [0], [0]), (0, [0], [1]), (0, [1], [1]), (0, [1], [0])])}),
    'transitive-parenthesised-operand': ('random', {'spec': seqlang(star(op('union', F('nxt'), F('prev')))), 'model': model([A('Host', 'h0'), A('Host', 'h1')], [(0, [0], [1])])}),
    'self-link-through-left-field': ('random', {'spec': seqlang(F('prev')), 'model': model([A('Host', 'h0')], [(0, [0], [0])])}),
    'language-without-associations': ('random', {'spec': lang([asset('Host', [step('access', reaches=[S('breach')]), step('breach')])], []), 'model': model([A('Host', 'h0')], [])}),
    # Host.access has no reaches; Net '+>' data.access; User '+>' access: User's extension must not leak into Net
    'extend-alias-leaks-to-parent': ('random', {'spec': lang(
        [asset('Host', [step('access')]),
         asset('Net', [step('access', reaches=[col(F('data'), S('access'))], overrides=False)], parent='Host'),
         asset('User', [step('access', reaches=[S('access')], overrides=False)], parent='Net')],
        [assoc('Conn', 'Net', 'users', 'Net', 'data')]),
        'model': model([A('Net', 'n0'), A('User', 'n1')], [])}),
    # (hosts \/ nets)[User]: operands Net-typed and User-typed, common ancestor Host
    'setop-common-ancestor-subtype': ('random', {'spec': lang(
        [asset('App', [step('access', reaches=[col(sub('User', op('union', F('nets'), F('users'))), S('breach'))])]),
         asset('Host', [step('breach')]),
         asset('Net', [], parent='Host'),
         asset('User', [], parent='Host')],
        [assoc('HasN', 'App', 'owner1', 'Net', 'nets'), assoc('HasU', 'App', 'owner2', 'User', 'users')]),
        'model': model([A('App', 'a'), A('Net', 'n'), A('User', 'u')], [(0, [0], [1]), (1, [0], [2])])}),
}
for name, (clause, case) in cases.items():
    with open(os.path.join(OUT, name + '.json'), 'w') as f:
        json.dump({'clause': clause, 'case': case}, f, indent=1, sort_keys=True)
print(len(cases), 'written to', OUT)
