"""Regenerates MANIFEST.json from the table below (keeps it schema-valid and in sync)."""
import json, os
HERE = os.path.dirname(os.path.dirname(os.path.abspath(__file__)))

CHECKS = {
 'C01': ('generated languages x models against an independent set-semantics evaluator (Hypothesis) + exhaustive small operand/link/type spaces',
         'No counter-example among the enumerated sub-spaces (all operand pairs over 3 assets, all 2^9 link relations under *, all type assignments for the subtype filter) and N random (language, model) pairs; exploration, not proof.',
         'Trusts the harness evaluator mtv/ref_eval.py (written from the MAL semantics) and that generated languages are what malc accepts.', '5/C01'),
 'C02': ('generated languages x models (colliding / odd names, explicit ids, non-default defenses, existence steps) against expected node set and attributes from the reference fold and evaluator',
         'No counter-example in N random cases; node multiset, attributes, id / name uniqueness and both lookups are compared for every node of every case.',
         'Trusts mtv/ref_lang.py (inheritance fold) and mtv/ref_eval.py; the rename scheme is not prescribed, only uniqueness.', '5/C02'),
 'C03': ('generated inheritance-heavy languages x operation histories (lookups, re-construction, regeneration, attack-graph and class generation) against the reference fold; specification snapshot comparison',
         'No counter-example in N random histories; after every operation the resolved steps are compared through three observation points and the specification dict with its snapshot.',
         'Trusts the reference fold in mtv/ref_lang.py; the private per-type resolver is observed when present.', '5/C03'),
 'C05': ('model-based testing: operation histories interpreted on Model and on an abstract reference model in lock step; bounded-exhaustive short histories + Hypothesis-generated long ones',
         'All histories of length <=3 (quick) / <=4 (thorough) over a 21-operation alphabet are enumerated completely; longer histories are random. Exploration.',
         'Trusts mtv/ref_model.py; the generated schema objects compare by value (the duplicate-association test still relies on that), so operations passing a removed object that equals a live one are not generated.', '5/C05'),
 'C06': ('generated languages x lists of valid and invalid construction attempts (defense range, member type, multiplicity, repeats, duplicate links) labelled by a reference; namespace inspection',
         'No counter-example in N random (language, attempts) cases: every attempt is labelled by the reference and must be accepted/visible or rejected/without effect; the final model is scanned for forbidden content.',
         'python_jsonschema_objects is trusted; mtv/ref_model.py decides validity.', '5/C06'),
 'C07': ('round-trip and file-description oracles over generated models (odd names, ids, extras, removals) x {json,yml,yaml}; generated hand-written files',
         'No counter-example in N random models x formats and N generated hand-written files; typed attribute comparison.',
         'Compares typed attribute state (mtv/modelstate.py), not the dict form; metadata other than the name is ignored.', '5/C07'),
 'C08': ('exhaustive enumeration of all <=2-node graphs (full alphabet) and 3-node graphs (reduced alphabet) under all node orders + Hypothesis-generated larger graphs and generated language/model graphs, against a reference greatest-fixed-point computation',
         'Complete for the enumerated small graphs (thorough tier: all 262144 three-node graphs x 6 orders); random exploration beyond.',
         'Trusts the reference Kleene iteration in mtv/aggen.py:ref_apriori; TTC arithmetic trees are not generated on gated positions.', '5/C08'),
 'C09': ('model-based testing: operation histories on AttackGraph with structural invariants I1-I4 after every step; bounded-exhaustive short histories + random long ones',
         'All histories of length <=3 (quick) / <=4 (thorough) over a 14-operation alphabet on a fixed graph are enumerated; longer histories random.',
         'Re-using a live id may raise or not as long as the invariants hold; private index dicts are observed only through the public lookups.', '5/C09'),
 'C10': ('round-trip oracle over attack graphs produced by generated histories x {json,yml} x {model given, absent}; typed attribute comparison',
         'No counter-example in N random graphs; exploration.', 'Edges are compared as sets (multiplicity is not claimed).', '5/C10'),
 'C11': ('model-based testing: compromise / undo / attach / add / remove histories against a reference relation attackers x nodes',
         'No counter-example in N random histories; exploration.', 'Attackers identified by object identity.', '5/C11'),
 'C12': ('definitional reference for traversability / surfaces, incremental-vs-recomputed metamorphic relation, purity by snapshot; exhaustive 3-node graphs x compromise subsets + random graphs with compromise batches',
         'Complete for the enumerated 3-node space in the thorough tier; random exploration beyond.', 'Edges are mirrored, as in every graph the toolbox produces.', '5/C12'),
 'C13': ('exact-set oracle for pruning over exhaustive labelled 3-node graphs and random labelled / analysed graphs, plus C09 structural invariants',
         'Complete for the enumerated 3-node space in the thorough tier; random exploration beyond.', 'none beyond the C09 invariants helper', '5/C13'),
 'C14': ('deepcopy equality + identity-based sharing scan + behavioural independence under generated mutation sequences on either side',
         'No counter-example in N random graphs x mutation sequences; exploration.', 'node.attributes (language-level step definition) is treated as language data.', '5/C14'),
 'C04': ('print-compile round trip over generated specifications with randomised layout; differential against malc output shipped in tests/testdata/*.mar; hand-written corpus with hand-derived trees; metamorphic include layouts',
         'No counter-example in N random programs and layouts; the coreLang round trip anchors printer and compiler jointly against the reference compiler output.',
         'Trusts the harness printer mtv/malprint.py (anchored on coreLang) and the shipped grammar; malc is not available offline.', '5/C04'),
 'C15': ('independent recomputation of the language-graph content from the specification (all pairs / all lookups), one-mutation ill-formed variants, over-approximation of generated attack graphs',
         'No counter-example in N random languages (+ models) and N ill-formed variants; the two shipped languages are checked completely.',
         'Trusts mtv/ref_lang.py; static typing of expressions for the non-triviality rule only.', '5/C15'),
 'C16': ('differential testing across runs: same process twice, fresh interpreters under 4 hash seeds, wrapper from .mar and from printed .mal; input snapshots',
         'No divergence in N (language, model) pairs; hash seeds sampled.',
         'The wrapper is compared with the API run on the model as loaded from the same file.', '5/C16'),
 'C17': ('token-level mutation of valid programs with the shipped grammar (counting error listener) as oracle',
         'No malformed text accepted among N mutants that the grammar classifies as erroneous.',
         'The generated lexer/parser shipped in the repository define the grammar; unanchored trailing text is out of scope.', '5/C17'),
 'C18': ('differential testing: harness-side inverse translators emit 0.0.39 JSON/YAML and securiCAD archives from generated native models; legacy loader vs native loader',
         'No divergence in N random models x 3 encodings.',
         'Trusts the emitters in mtv/props/c18.py (written after the repository fixture pair) and the native loader as reference.', '5/C18'),
 'C19': ('recording stand-in for the database driver; export compared with the expected node / relationship sets computed from the case description; import round trip',
         'No counter-example in N random models / attack graphs.',
         'The stand-in answers the two fixed queries of get_model by pattern matching over the recorded py2neo subgraph; no real database.', '5/C19'),
}
NOT_APPLICABLE = {}

def main():
    props = [json.loads(l) for l in open(os.path.join(HERE, 'properties.jsonl'))]
    checks = []
    for p in props:
        pid = p['id']
        if pid not in CHECKS:
            continue
        tech, text, note, ref = CHECKS[pid]
        checks.append({
            'property_id': pid,
            'quick_cmd': f'./check {pid} --tier quick',
            'thorough_cmd': f'./check {pid} --tier thorough',
            'evidence_file': f'/verif/evidence/{pid}.json',
            'replay_cmd_template': f'./check {pid} --replay {{path}}',
            'engine': 'mtv',
            'level_claimed': {'category': 'exploration', 'text': text, 'design_ref': f'DESIGN.md section {ref}'},
            'level_note': note,
            'technique': 'property-based testing: ' + tech,
        })
    na = []
    for p in props:
        if p['id'] not in CHECKS:
            na.append({'property_id': p['id'], 'reason': NOT_APPLICABLE.get(p['id'], 'check not built yet (work in progress); the technique applies, see DESIGN.md section 5')})
    m = {
        'version': 1,
        'setup_cmd': '/venv/bin/python -c "import hypothesis, maltoolbox, antlr4, yaml, py2neo" || /venv/bin/pip install --no-index --find-links /opt/veriftools/wheels hypothesis',
        'hooks': {'guard': 'MAL_TOOLBOX_VERIF', 'enable': 'no source hooks exist: the checks import /repo as it is (VERIF_REPO overrides the path); MAL_TOOLBOX_VERIF=1 is exported by the harness but nothing in /repo reads it',
                  'baseline_off_cmd': 'cd /repo && /venv/bin/python -m pytest -ra -q -p no:cacheprovider --timeout=900 --continue-on-collection-errors',
                  'source_commits': [], 'add_only': True},
        'engines': [{'name': 'mtv', 'path': '/verif/mtv', 'serves_properties': sorted(CHECKS),
                     'kind_free_text': 'Hypothesis-driven generators (languages, models, attack graphs, operation histories), independent reference oracles, exhaustive enumeration of small finite sub-spaces, per-signature shrinking and replay'}],
        'checks': checks,
        'notes': 'All checks: ./check <ID> [--tier quick|thorough] [--replay PATH]; VERIF_SEED selects the seed; exit 0/1/2 = held / VIOLATION / harness error. Genuine defects found and repaired are listed in known_findings.json (fixed entries) with regression inputs under corpus/regressions/.',
        'not_applicable': na,
    }
    with open(os.path.join(HERE, 'MANIFEST.json'), 'w') as f:
        json.dump(m, f, indent=1)
    print('MANIFEST.json:', len(checks), 'checks,', len(na), 'not claimed')

if __name__ == '__main__':
    main()
