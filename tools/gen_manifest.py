"""Regenerates MANIFEST.json from the table below (keeps it schema-valid and in sync)."""
import json, os
HERE = os.path.dirname(os.path.dirname(os.path.abspath(__file__)))

CHECKS = {
 'C01': ('generated languages x models against an independent set-semantics evaluator (Hypothesis) + exhaustive small operand/link/type spaces',
         'No counter-example among the enumerated sub-spaces (all operand pairs over 3 assets, all 2^9 link relations under *, all type assignments for the subtype filter) and N random (language, model) pairs; exploration, not proof.',
         'Trusts the harness evaluator mtv/ref_eval.py (written from the MAL semantics) and that generated languages are what malc accepts.', '5/C01'),
}
NOT_APPLICABLE = {}

def main():
    props = [json.loads(l) for l in open(os.path.join(HERE, 'properties.jsonl'))]
    checks = []
    for p in props:
        pid = p['id']
        if pid not in CHECKS:
            continue
        tech, text, note, ref = CHECKS[pid]
        checks.append({
            'property_id': pid,
            'quick_cmd': f'./check {pid} --tier quick',
            'thorough_cmd': f'./check {pid} --tier thorough',
            'evidence_file': f'/verif/evidence/{pid}.json',
            'replay_cmd_template': f'./check {pid} --replay {{path}}',
            'engine': 'mtv',
            'level_claimed': {'category': 'exploration', 'text': text, 'design_ref': f'DESIGN.md section {ref}'},
            'level_note': note,
            'technique': 'property-based testing: ' + tech,
        })
    na = []
    for p in props:
        if p['id'] not in CHECKS:
            na.append({'property_id': p['id'], 'reason': NOT_APPLICABLE.get(p['id'], 'check not built yet (work in progress); the technique applies, see DESIGN.md section 5')})
    m = {
        'version': 1,
        'setup_cmd': '/venv/bin/python -c "import hypothesis, maltoolbox, antlr4, yaml, py2neo" || /venv/bin/pip install --no-index --find-links /opt/veriftools/wheels hypothesis',
        'hooks': {'guard': 'MAL_TOOLBOX_VERIF', 'enable': 'no source hooks exist: the checks import /repo as it is (VERIF_REPO overrides the path); MAL_TOOLBOX_VERIF=1 is exported by the harness but nothing in /repo reads it',
                  'baseline_off_cmd': 'cd /repo && /venv/bin/python -m pytest -ra -q -p no:cacheprovider --timeout=900 --continue-on-collection-errors',
                  'source_commits': [], 'add_only': True},
        'engines': [{'name': 'mtv', 'path': '/verif/mtv', 'serves_properties': sorted(CHECKS),
                     'kind_free_text': 'Hypothesis-driven generators (languages, models, attack graphs, operation histories), independent reference oracles, exhaustive enumeration of small finite sub-spaces, per-signature shrinking and replay'}],
        'checks': checks,
        'notes': 'All checks: ./check <ID> [--tier quick|thorough] [--replay PATH]; VERIF_SEED selects the seed; exit 0/1/2 = held / VIOLATION / harness error. Genuine defects found and repaired are listed in known_findings.json (fixed entries) with regression inputs under corpus/regressions/.',
        'not_applicable': na,
    }
    with open(os.path.join(HERE, 'MANIFEST.json'), 'w') as f:
        json.dump(m, f, indent=1)
    print('MANIFEST.json:', len(checks), 'checks,', len(na), 'not claimed')

if __name__ == '__main__':
    main()
