#!/bin/bash
# run every thorough check once on the unchanged tree and report exit code and wall time
cd "$(dirname "$0")/.."
for i in ${@:-01 02 03 04 05 06 07 08 09 10 11 12 13 14 15 16 17 18 19}; do
  s=$(date +%s)
  out=$(VERIF_SEED=${VERIF_SEED:-1} timeout 7200 ./check C$i --tier thorough 2>&1); rc=$?
  e=$(date +%s)
  echo "C$i rc=$rc wall=$((e-s))s $(echo "$out" | tail -1)"
  if [ $rc -ne 0 ]; then echo "$out" | grep -E "VIOLATION|signature|HARNESS|Error" | head -5; fi
done
